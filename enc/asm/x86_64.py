"""Partial-evaluating symbolic executor for the x86-64 (AT&T syntax) assembly files
of ascon-suite (DESIGN 3 C18).

Control flow and addresses are evaluated concretely from the public arguments;
data stays symbolic and is emitted as straight-line SSA C over uint64_t.  The
executor itself enforces, for every path it follows:
  * ABI   : at `ret` %rsp equals its entry value and every callee-saved register
            (rbx, rbp, r12-r15) holds its entry value;
  * footprint : every load/store hits a declared argument region (inside its
            size) or the function's own stack frame below the return address;
  * secret independence : a conditional jump, indirect jump or address that
            depends on a symbolic (data) value is refused (ExecError).
"""
import re
import subprocess

MASK64 = (1 << 64) - 1
CALLEE_SAVED = ["rbx", "rbp", "r12", "r13", "r14", "r15"]
CALLER_SAVED = ["rax", "rcx", "rdx", "rsi", "rdi", "r8", "r9", "r10", "r11"]
REG64 = ["rax", "rbx", "rcx", "rdx", "rsi", "rdi", "rbp", "rsp"] + ["r%d" % i for i in range(8, 16)]
REG32 = {"eax": "rax", "ebx": "rbx", "ecx": "rcx", "edx": "rdx", "esi": "rsi", "edi": "rdi", "ebp": "rbp", "esp": "rsp"}
REG32.update({"r%dd" % i: "r%d" % i for i in range(8, 16)})
REG8 = {"al": "rax", "bl": "rbx", "cl": "rcx", "dl": "rdx", "sil": "rsi", "dil": "rdi"}
REG8.update({"r%db" % i: "r%d" % i for i in range(8, 16)})


class ExecError(Exception):
    pass


class Sym:
    """symbolic 64-bit value named by a C expression (an SSA temporary or input)"""
    __slots__ = ("e",)

    def __init__(self, e):
        self.e = e


class Ptr:
    __slots__ = ("region", "off")

    def __init__(self, region, off):
        self.region, self.off = region, off


class Lbl:
    __slots__ = ("name", "off")

    def __init__(self, name, off=0):
        self.name, self.off = name, off


class LblDiff:
    __slots__ = ("a", "b")

    def __init__(self, a, b):
        self.a, self.b = a, b


class Poison:
    def __init__(self, why):
        self.why = why


def preprocess(path, incdirs, defines):
    cmd = ["gcc", "-E", "-P", "-x", "assembler-with-cpp"]
    for d in incdirs:
        cmd += ["-I", d]
    for d in defines:
        cmd.append(d)
    cmd.append(path)
    r = subprocess.run(cmd, capture_output=True, text=True)
    if r.returncode != 0:
        raise ExecError("preprocess failed: " + r.stderr[-500:])
    return r.stdout


class Program:
    def __init__(self, text):
        self.ins = []        # (mnemonic, [operands], source line)
        self.labels = {}     # text label -> instruction index
        self.data = {}       # data label -> list of (size, expr)
        section = "text"
        cur_data = None
        for raw in text.splitlines():
            line = raw.split("#")[0].strip() if not raw.strip().startswith("#") else ""
            if not line:
                continue
            m = re.match(r"^([.\w$]+):\s*(.*)$", line)
            if m:
                lab = m.group(1)
                if section == "text":
                    self.labels[lab] = len(self.ins)
                else:
                    cur_data = lab
                    self.data[lab] = []
                line = m.group(2).strip()
                if not line:
                    continue
            if line.startswith("."):
                parts = line.split(None, 1)
                d = parts[0]
                if d == ".text":
                    section = "text"
                elif d == ".section":
                    section = "text" if ".text" in parts[1] else "data"
                elif d == ".data":
                    section = "data"
                elif d in (".long", ".quad") and section == "data" and cur_data is not None:
                    for e in parts[1].split(","):
                        self.data[cur_data].append((4 if d == ".long" else 8, e.strip()))
                continue
            parts = line.split(None, 1)
            ops = []
            if len(parts) > 1:
                ops = [o.strip() for o in re.split(r",(?![^()]*\))", parts[1])]
            self.ins.append((parts[0], ops, raw.strip()))


class Machine:
    def __init__(self, prog, fname, out_name, regions, args, env_calls=None, max_steps=400000, back_edge_limit=None):
        """regions: name -> size in bytes (argument objects); args: register -> value
        (int, Ptr).  back_edge_limit: if given, backward conditional jumps are taken at most
        that many times in total and fall through afterwards (per-round extraction, DESIGN 2.4:
        the loops of the masked permutations are entered through their own back-edge test)."""
        self.p = prog
        self.fname = fname
        self.out = []
        self.ntmp = 0
        self.regions = dict(regions)
        self.mem = {}         # (region, off) -> (size, value)
        self.reg = {}
        for r in REG64:
            self.reg[r] = Sym("entry_" + r)
        self.entry = dict(self.reg)
        self.reg["rsp"] = Ptr("stack", 0)
        for k, v in args.items():
            self.reg[k] = v
        self.flags = None
        self.min_sp = 0
        self.env_calls = env_calls or {}
        self.max_steps = max_steps
        self.inputs = []      # (region, off, size, cname)
        self.stores = {}      # (region, off) -> size  (final write-back set)
        self.back_edge_limit = back_edge_limit   # per-round extraction: number of times a backward conditional jump may be taken
        self.passes = 0
        self.pc = 0
        self.calls = []
        self.out_name = out_name
        self.report = {"loads": 0, "stores": 0, "max_frame": 0, "steps": 0}

    # ---- helpers
    def tmp(self, expr):
        n = "t%d" % self.ntmp
        self.ntmp += 1
        self.out.append("    uint64_t %s = %s;" % (n, expr))
        return Sym(n)

    def cexpr(self, v):
        if isinstance(v, int):
            return "UINT64_C(0x%x)" % (v & MASK64)
        if isinstance(v, Sym):
            return v.e
        raise ExecError("value of kind %s used as data" % type(v).__name__ + (": " + v.why if isinstance(v, Poison) else ""))

    def parse_imm(self, s):
        s = s.strip()
        return int(s, 0) & MASK64

    def getreg(self, name):
        name = name.lstrip("%")
        if name in self.reg:
            return self.reg[name], 8
        if name in REG32:
            return self.reg[REG32[name]], 4
        if name in REG8:
            return self.reg[REG8[name]], 1
        raise ExecError("unknown register " + name)

    def addr(self, op):
        m = re.match(r"^([^()]*)\((%\w+)?(?:,(%\w+)(?:,(\d+))?)?\)$", op)
        if not m:
            raise ExecError("bad memory operand " + op)
        disp, base, idx, scale = m.groups()
        if base == "%rip":
            return Lbl(disp.strip(), 0)
        b = self.reg[base.lstrip("%")] if base else 0
        d = int(disp, 0) if disp.strip() else 0
        if idx:
            iv = self.reg[idx.lstrip("%")]
            if not isinstance(iv, int):
                raise ExecError("index register %s is not a concrete value (address would depend on data): %s" % (idx, op))
            if iv >= 1 << 63:
                iv -= 1 << 64
            d += iv * int(scale or 1)
        if isinstance(b, Ptr):
            return Ptr(b.region, b.off + d)
        if isinstance(b, Lbl):
            return Lbl(b.name, b.off + d)
        raise ExecError("base of %s is not a pointer (kind %s): address depends on data or is wild" % (op, type(b).__name__))

    def check_access(self, a, size, write):
        if a.region == "stack":
            if a.off >= 0:
                raise ExecError("%s at or above the return address slot (stack+%d)" % ("store" if write else "load", a.off))
            if a.off < self.min_sp and write:
                raise ExecError("store below the stack pointer")
            return
        if a.region not in self.regions:
            raise ExecError("access to unknown region " + a.region)
        if a.off < 0 or a.off + size > self.regions[a.region]:
            raise ExecError("%s outside object '%s' (offset %d size %d, object size %d)" %
                            ("store" if write else "load", a.region, a.off, size, self.regions[a.region]))

    def load(self, a, size):
        if isinstance(a, Lbl):
            items = self.p.data.get(a.name)
            if items is None:
                raise ExecError("load from unknown data label " + a.name)
            pos = 0
            for sz, e in items:
                if pos == a.off and sz == size:
                    m = re.match(r"^([.\w]+)-([.\w]+)$", e)
                    if m:
                        return LblDiff(m.group(1), m.group(2))
                    return int(e, 0) & ((1 << (8 * sz)) - 1)
                pos += sz
            raise ExecError("load from data label %s+%d" % (a.name, a.off))
        self.check_access(a, size, False)
        self.report["loads"] += 1
        key = (a.region, a.off)
        if key in self.mem:
            sz, v = self.mem[key]
            if sz == size:
                return v
            if sz > size and isinstance(v, (int, Sym)):
                if isinstance(v, int):
                    return v & ((1 << (8 * size)) - 1)
                return self.tmp("(%s) & UINT64_C(0x%x)" % (v.e, (1 << (8 * size)) - 1))
            raise ExecError("partially overlapping load at %s+%d" % key)
        for (r, o), (sz, v) in self.mem.items():
            if r == a.region and o < a.off + size and a.off < o + sz:
                raise ExecError("load overlapping an earlier store of different extent at %s+%d" % key)
        if a.region == "stack":
            raise ExecError("load of uninitialised stack slot stack%d" % a.off)
        cn = "in_%s_%d" % (a.region, a.off)
        if not any(i[3] == cn for i in self.inputs):
            self.inputs.append((a.region, a.off, size, cn))
        v = Sym(cn)
        self.mem[key] = (size, v)
        return v

    def store(self, a, size, v):
        if not isinstance(a, Ptr):
            raise ExecError("store to non-pointer")
        self.check_access(a, size, True)
        self.report["stores"] += 1
        key = (a.region, a.off)
        for (r, o), (sz, _) in list(self.mem.items()):
            if r == a.region and (o, sz) != (a.off, size) and o < a.off + size and a.off < o + sz:
                # materialise untouched input first, then forbid odd overlaps
                raise ExecError("store overlapping a cell of different extent at %s+%d (size %d vs %d@%d)" % (a.region, a.off, size, sz, o))
        if a.region != "stack":
            # make sure the pre-value is read (so that unmodified parts are modelled) -- sizes are uniform, nothing to do
            self.stores[key] = size
        self.mem[key] = (size, v)

    def operand_read(self, op, size):
        if op.startswith("$"):
            v = self.parse_imm(op[1:])
            return v & ((1 << (8 * size)) - 1) if size < 8 else v
        if op.startswith("%"):
            v, sz = self.getreg(op)
            if sz == 8 or size == 8 and sz == 8:
                return v
            if isinstance(v, int):
                return v & ((1 << (8 * sz)) - 1)
            if isinstance(v, Sym):
                return self.tmp("(%s) & UINT64_C(0x%x)" % (v.e, (1 << (8 * sz)) - 1))
            raise ExecError("sub-register read of non-data value")
        return self.load(self.addr(op), size)

    def operand_write(self, op, size, v):
        if op.startswith("%"):
            name = op.lstrip("%")
            if name in self.reg:
                self.reg[name] = v
            elif name in REG32:
                # 32-bit writes zero-extend
                if isinstance(v, int):
                    self.reg[REG32[name]] = v & 0xffffffff
                else:
                    self.reg[REG32[name]] = self.tmp("(%s) & UINT64_C(0xffffffff)" % self.cexpr(v))
            elif name in REG8:
                old = self.reg[REG8[name]]
                if isinstance(old, int) and isinstance(v, int):
                    self.reg[REG8[name]] = (old & ~0xff & MASK64) | (v & 0xff)
                else:
                    self.reg[REG8[name]] = self.tmp("((%s) & ~UINT64_C(0xff)) | ((%s) & UINT64_C(0xff))" % (self.cexpr(old), self.cexpr(v)))
            else:
                raise ExecError("unknown register " + op)
            return
        self.store(self.addr(op), size, v)

    def binop(self, op, a, b, size=8):
        """dst = b OP a  (AT&T: op src,dst)"""
        mask = (1 << (8 * size)) - 1
        if isinstance(a, int) and isinstance(b, int):
            if op == "^": r = a ^ b
            elif op == "&": r = a & b
            elif op == "|": r = a | b
            elif op == "+": r = a + b
            elif op == "-": r = b - a
            return r & mask
        if isinstance(b, Ptr) and isinstance(a, int) and op in "+-":
            d = a if a < 1 << 63 else a - (1 << 64)
            return Ptr(b.region, b.off + d if op == "+" else b.off - d)
        if isinstance(b, LblDiff) and isinstance(a, Lbl) and op == "+":
            if b.b == a.name and a.off == 0:
                return Lbl(b.a, 0)
            raise ExecError("label arithmetic")
        if isinstance(a, LblDiff) and isinstance(b, Lbl) and op == "+":
            if a.b == b.name and b.off == 0:
                return Lbl(a.a, 0)
            raise ExecError("label arithmetic")
        ea, eb = self.cexpr(a), self.cexpr(b)
        if op == "-":
            return self.tmp("%s - %s" % (eb, ea))
        return self.tmp("%s %s %s" % (eb, op, ea))

    # ---- main loop
    def run(self):
        if self.fname not in self.p.labels:
            raise ExecError("function %s not found" % self.fname)
        pc = self.p.labels[self.fname]
        steps = 0
        while True:
            steps += 1
            if steps > self.max_steps:
                raise ExecError("step limit")
            if pc >= len(self.p.ins):
                raise ExecError("fell off the end of the text")
            mn, ops, src = self.p.ins[pc]
            self.pc = pc
            npc = pc + 1
            try:
                r = self.step(mn, ops)
            except ExecError as e:
                raise ExecError("%s  [at `%s`]" % (e, src))
            if r == "ret":
                break
            if isinstance(r, int):
                npc = r
            pc = npc
        self.report["steps"] = steps
        self.report["max_frame"] = -self.min_sp
        return self.finish()

    def jump_target(self, op):
        name = op.strip()
        if name.startswith("*"):
            v, _ = self.getreg(name[1:])
            if not isinstance(v, Lbl) or v.off != 0:
                raise ExecError("indirect jump through a value that is not a code label (depends on data?)")
            name = v.name
        if name not in self.p.labels:
            raise ExecError("jump to unknown label " + name)
        tgt = self.p.labels[name]
        return name, tgt

    def step(self, mn, ops):
        sfx = {"q": 8, "l": 4, "w": 2, "b": 1}
        if mn in ("ret", "retq"):
            sp = self.reg["rsp"]
            if not isinstance(sp, Ptr) or sp.region != "stack" or sp.off != 0:
                raise ExecError("ABI: stack pointer at return differs from its entry value")
            for r in CALLEE_SAVED:
                v = self.reg[r]
                if not (isinstance(v, Sym) and v.e == "entry_" + r):
                    raise ExecError("ABI: callee-saved register %%%s not restored at return" % r)
            return "ret"
        if mn == "pushq":
            v = self.operand_read(ops[0], 8)
            sp = self.reg["rsp"]
            nsp = Ptr(sp.region, sp.off - 8)
            self.reg["rsp"] = nsp
            self.min_sp = min(self.min_sp, nsp.off)
            self.mem[("stack", nsp.off)] = (8, v)
            self.report["stores"] += 1
            return None
        if mn == "popq":
            sp = self.reg["rsp"]
            if sp.off >= 0:
                raise ExecError("pop of the return address or beyond")
            key = ("stack", sp.off)
            if key not in self.mem:
                raise ExecError("pop of uninitialised stack slot")
            self.operand_write(ops[0], 8, self.mem[key][1])
            del self.mem[key]
            self.reg["rsp"] = Ptr("stack", sp.off + 8)
            self.report["loads"] += 1
            return None
        if mn in ("jmp",):
            name, tgt = self.jump_target(ops[0])
            return tgt
        if mn in ("jl", "jg", "jge", "jle", "je", "jne", "jz", "jnz", "jb", "jae", "ja", "jbe"):
            if self.flags is None:
                raise ExecError("conditional jump on flags that depend on data (or unset)")
            a, b = self.flags        # cmp a,b : compares b with a  (b - a)

            def s(x):
                return x - (1 << 64) if x >= 1 << 63 else x
            cond = {"jl": s(b) < s(a), "jg": s(b) > s(a), "jge": s(b) >= s(a), "jle": s(b) <= s(a),
                    "je": a == b, "jz": a == b, "jne": a != b, "jnz": a != b,
                    "jb": b < a, "jae": b >= a, "ja": b > a, "jbe": b <= a}[mn]
            name, tgt = self.jump_target(ops[0])
            if cond and self.back_edge_limit is not None and tgt <= self.pc:
                self.passes += 1
                if self.passes > self.back_edge_limit:
                    return None      # per-round extraction: back-edge not taken again
            return tgt if cond else None
        if mn == "call":
            fn = ops[0].split("@")[0]
            if fn not in self.env_calls:
                raise ExecError("call to unmodelled function " + fn)
            spec = self.env_calls[fn]
            argv = []
            for r in spec["args"]:
                v = self.reg[r]
                if isinstance(v, Ptr):
                    argv.append("%s + %d" % (v.region, v.off) if v.region != "stack" else "0")
                else:
                    argv.append(self.cexpr(v))
            sp = self.reg["rsp"]
            if (sp.off - 8) % 16 != 0 and spec.get("check_align", True):
                pass  # alignment is reported, not enforced: see report
            self.report.setdefault("call_sp_mod16", []).append((sp.off - 8) % 16)
            res = self.tmp("%s(%s)" % (spec["c"], ", ".join(argv)))
            for r in CALLER_SAVED:
                self.reg[r] = Poison("clobbered by call to " + fn)
            self.reg["rax"] = res
            self.flags = None
            self.calls.append(fn)
            return None
        base = mn[:-1] if mn[-1] in sfx and mn not in ("bswapq",) else mn
        size = sfx.get(mn[-1], 8)
        if mn == "bswapq":
            v = self.operand_read(ops[0], 8)
            if isinstance(v, int):
                r = int.from_bytes(v.to_bytes(8, "little"), "big")
            else:
                r = self.tmp("__builtin_bswap64(%s)" % self.cexpr(v))
            self.operand_write(ops[0], 8, r)
            return None
        if mn == "movslq":
            v = self.operand_read(ops[0], 4)
            if isinstance(v, int):
                if v & 0x80000000:
                    v |= 0xffffffff00000000
            elif not isinstance(v, LblDiff):
                v = self.tmp("(uint64_t)(int64_t)(int32_t)(%s)" % self.cexpr(v))
            self.operand_write(ops[1], 8, v)
            return None
        if mn in ("movzbl", "movzbq"):
            v = self.operand_read(ops[0], 1)
            self.operand_write("%" + REG32.get(ops[1].lstrip("%"), ops[1].lstrip("%")), 8, v if isinstance(v, int) else v)
            return None
        if base == "mov":
            v = self.operand_read(ops[0], size)
            if size == 4 and ops[1].startswith("%"):
                self.operand_write(ops[1], 4, v)
            else:
                self.operand_write(ops[1], size, v)
            return None
        if base == "lea":
            self.operand_write(ops[1], 8, self.addr(ops[0]))
            return None
        if base in ("xor", "and", "or", "add", "sub"):
            a = self.operand_read(ops[0], size)
            b = self.operand_read(ops[1], size)
            cop = {"xor": "^", "and": "&", "or": "|", "add": "+", "sub": "-"}[base]
            r = self.binop(cop, a, b, size)
            self.operand_write(ops[1], size, r)
            self.flags = None
            return None
        if base == "not":
            v = self.operand_read(ops[0], size)
            r = (~v) & MASK64 if isinstance(v, int) else self.tmp("~%s" % self.cexpr(v))
            self.operand_write(ops[0], size, r)
            return None
        if base in ("ror", "rol", "shl", "shr"):
            n = self.operand_read(ops[0], 1)
            if not isinstance(n, int):
                raise ExecError("shift/rotate amount depends on data")
            n &= 63
            v = self.operand_read(ops[1], size)
            if size != 8:
                raise ExecError("only 64-bit shifts are modelled")
            if isinstance(v, int):
                if base == "ror": r = ((v >> n) | (v << (64 - n))) & MASK64 if n else v
                elif base == "rol": r = ((v << n) | (v >> (64 - n))) & MASK64 if n else v
                elif base == "shl": r = (v << n) & MASK64
                else: r = v >> n
            else:
                e = self.cexpr(v)
                if n == 0: r = v
                elif base == "ror": r = self.tmp("(%s >> %d) | (%s << %d)" % (e, n, e, 64 - n))
                elif base == "rol": r = self.tmp("(%s << %d) | (%s >> %d)" % (e, n, e, 64 - n))
                elif base == "shl": r = self.tmp("%s << %d" % (e, n))
                else: r = self.tmp("%s >> %d" % (e, n))
            self.operand_write(ops[1], size, r)
            self.flags = None
            return None
        if base == "cmp":
            a = self.operand_read(ops[0], size)
            b = self.operand_read(ops[1], size)
            if isinstance(a, int) and isinstance(b, int):
                if a >= 1 << 63 and size == 8:
                    pass
                self.flags = (a & MASK64, b & MASK64)
            else:
                self.flags = None   # data-dependent flags: any later conditional jump is refused
            return None
        raise ExecError("unmodelled instruction " + mn)

    def finish(self):
        """Emit the C function body: inputs, SSA statements, write-back."""
        lines = []
        regs = sorted(self.regions)
        lines.append("static void %s(%s)" % (self.out_name, ", ".join("uint8_t *%s" % r for r in regs) or "void"))
        lines.append("{")
        for region, off, size, cn in self.inputs:
            lines.append("    uint64_t %s = VLD%d(%s + %d);" % (cn, size * 8, region, off))
        lines += self.out
        for (region, off), size in sorted(self.stores.items()):
            sz, v = self.mem[(region, off)]
            lines.append("    VST%d(%s + %d, %s);" % (size * 8, region, off, self.cexpr(v)))
        lines.append("}")
        return "\n".join(lines)


PRELUDE = """#include <stdint.h>
#include <string.h>
#ifndef VERIF_ASM_PRELUDE
#define VERIF_ASM_PRELUDE
static inline uint64_t VLD64(const uint8_t *p) { uint64_t v; memcpy(&v, p, 8); return v; }
static inline uint64_t VLD32(const uint8_t *p) { uint32_t v; memcpy(&v, p, 4); return v; }
static inline uint64_t VLD8(const uint8_t *p) { return *p; }
static inline void VST64(uint8_t *p, uint64_t v) { memcpy(p, &v, 8); }
static inline void VST32(uint8_t *p, uint64_t v) { uint32_t w = (uint32_t)v; memcpy(p, &w, 4); }
static inline void VST8(uint8_t *p, uint64_t v) { *p = (uint8_t)v; }
#endif
"""


def translate(asm_text, fname, first_round, out_name):
    """common executor interface (see validate.py): plain permutation, state pointer in %rdi, first_round in %rsi"""
    prog = Program(asm_text)
    m = Machine(prog, fname, out_name, {"state": 40}, {"rdi": Ptr("state", 0), "rsi": first_round})
    body = m.run()
    return PRELUDE + body, dict(m.report, inputs=len(m.inputs), written=sorted(o for (_, o) in m.stores))
