"""Partial-evaluating symbolic executor for the AVR (avr5, 8-bit) assembly files of
ascon-suite (DESIGN 3 C18), in the style of x86_64.py:

    src/core/ascon-asm-avr5.S            ascon_permute(state, first_round), ascon_backend_free(state)
    src/masking/ascon-x2-asm-avr5.S      ascon_x2_permute(state, first_round, preserve)
    src/masking/ascon-x3-asm-avr5.S      ascon_x3_permute(state, first_round, preserve)

Control flow and addresses are evaluated concretely from the public argument first_round
(the round-constant/counter register r22 stays concrete); data stays symbolic and is
emitted as straight-line SSA C over uint8_t.  The carry flag and the T flag are *values*
(concrete bit, symbolic bit, or unknown): ror/rol/adc through a carry that comes from a
data shift is data flow.  Z is tracked only when it is concrete (result of arithmetic on
concrete values; unknown otherwise), N/S/V/H are not tracked: the files never branch on
flags (the loop test is `cpse`); breq/brne/brcc/brcs are followed only on a concrete flag,
every other conditional branch is refused.

Enforced on the path followed (ExecError otherwise):
  * ABI (avr-gcc): at `ret` SP equals its entry value, the call-saved registers r2-r17,
    r28, r29 hold their entry values, r1 (the zero register) is 0, and if interrupts were
    disabled with `cli` the saved SREG was restored; r1 is assumed 0 at entry.
    While SPH/SPL are half-updated interrupts must be off (cli ... out SPH ... out SREG,
    out SPL idiom: the instruction after the SREG restore still runs uninterrupted).
  * footprint: every load/store hits a declared argument object (inside its size) or the
    function's own stack frame: sp < address <= entry sp (the return address and the
    caller's frame above it may neither be read nor written; nothing may be stored at or
    below the stack pointer, where an interrupt could clobber it).
  * secret independence: `cpse`/branches on symbolic values, addresses formed from data
    (a pointer register pair that is not the two halves of one known pointer) are refused.

Calling convention modelled: first pointer argument in r25:r24, second argument
(uint8_t first_round) in r22 (r23 is undefined), third pointer argument in r21:r20.
2-byte return address (devices with <= 128 KiB flash).
The state object of ascon_permute is the 40-byte big-endian byte string: layout "bytes-be".
"""
import os
import re
import shutil
import tempfile

import x86_64 as _X
from x86_64 import ExecError, Sym, Ptr, Poison  # noqa: F401

LAYOUT = "bytes-be"
_HOST_UNDEF = ["-U__x86_64__", "-U__x86_64"]     # gcc -E runs on an x86-64 host
TARGET_DEFINES = {
    "ascon-asm-avr5.S": ["-D__AVR__", "-D__AVR_ARCH__=5"] + _HOST_UNDEF,
    "ascon-x2-asm-avr5.S": ["-D__AVR__", "-D__AVR_ARCH__=5"] + _HOST_UNDEF,   # plus -DASCON_MASKED_MAX_SHARES=2|3 (config)
    "ascon-x3-asm-avr5.S": ["-D__AVR__", "-D__AVR_ARCH__=5"] + _HOST_UNDEF,   # needs ASCON_MASKED_MAX_SHARES=3 (the AVR default)
}

CALL_SAVED = ["r%d" % i for i in range(2, 18)] + ["r28", "r29"]
PAIRS = {"X": 26, "Y": 28, "Z": 30}
IO_SPL, IO_SPH, IO_SREG = 0x3d, 0x3e, 0x3f


def preprocess(path, incdirs, defines):
    """gcc -E; the files #include <avr/io.h> (unused: no SFR names appear in them), which the host does not
    have: an empty stand-in is supplied from a private temporary include directory."""
    stub = tempfile.mkdtemp(prefix="avrstub-")
    try:
        os.makedirs(os.path.join(stub, "avr"))
        open(os.path.join(stub, "avr", "io.h"), "w").close()
        return _X.preprocess(path, list(incdirs) + [stub], defines)
    finally:
        shutil.rmtree(stub, ignore_errors=True)


class PHalf:
    """one byte of a 16-bit pointer held in an 8-bit register"""
    __slots__ = ("region", "off", "hi")

    def __init__(self, region, off, hi):
        self.region, self.off, self.hi = region, off, hi


class PPend:
    """low half of a pointer after the first instruction of a two-instruction 16-bit add/subtract of a
    constant (subi lo,K ; sbci hi,K).  The same object sits in the carry flag until the high half is done."""
    __slots__ = ("region", "off", "klo", "sub", "reg")

    def __init__(self, region, off, klo, sub, reg):
        self.region, self.off, self.klo, self.sub, self.reg = region, off, klo, sub, reg


class SregTok:
    """the value of SREG read with `in`: opaque, can only be written back"""
    __slots__ = ("serial",)

    def __init__(self, serial):
        self.serial = serial


class Program:
    def __init__(self, text):
        self.ins = []         # (mnemonic, [operands], source line)
        self.labels = {}      # symbolic label -> index
        self.numeric = {}     # numeric local label -> sorted list of indices
        for raw in text.splitlines():
            line = raw.split(";")[0].strip()
            if not line or line.startswith("#"):
                continue
            m = re.match(r"^([.\w$]+):\s*(.*)$", line)
            if m:
                lab = m.group(1)
                if lab.isdigit():
                    self.numeric.setdefault(lab, []).append(len(self.ins))
                else:
                    self.labels[lab] = len(self.ins)
                line = m.group(2).strip()
                if not line:
                    continue
            if line.startswith(".") or re.match(r"^[.\w$]+\s*=", line):
                continue          # directives and symbol assignments (.L__stack_usage = n)
            parts = line.split(None, 1)
            ops = [o.strip() for o in parts[1].split(",")] if len(parts) > 1 else []
            self.ins.append((parts[0].lower(), ops, raw.strip()))

    def resolve(self, name, pc):
        m = re.match(r"^(\d+)([bf])$", name)
        if m:
            cands = self.numeric.get(m.group(1), [])
            if m.group(2) == "b":
                c = [i for i in cands if i <= pc]
                if c:
                    return c[-1]
            else:
                c = [i for i in cands if i > pc]
                if c:
                    return c[0]
            raise ExecError("unresolved local label " + name)
        if name not in self.labels:
            raise ExecError("jump to unknown label " + name)
        return self.labels[name]


class Machine:
    def __init__(self, prog, fname, out_name, regions, args, max_steps=400000):
        """regions: name -> size in bytes; args: register name -> int, or register pair base name
        (e.g. 'r24' for r25:r24) -> Ptr."""
        self.p = prog
        self.fname = fname
        self.out_name = out_name
        self.out = []
        self.ntmp = 0
        self.regions = dict(regions)
        self.mem = {}             # (region, off) -> byte value
        self.reg = {}
        for i in range(32):
            self.reg["r%d" % i] = Sym("entry_r%d" % i)
        self.reg["r1"] = 0        # avr-gcc: __zero_reg__
        for k, v in args.items():
            if isinstance(v, Ptr):
                n = int(k[1:])
                self.reg["r%d" % n] = PHalf(v.region, v.off, False)
                self.reg["r%d" % (n + 1)] = PHalf(v.region, v.off, True)
            else:
                self.reg[k] = v & 0xff
        self.carry = None         # None unknown | int | Sym (0/1 expression) | PPend
        self.tflag = None
        self.zflag = None         # None unknown / data dependent | bool
        self.sp = 0               # SP as an offset in region "stack"; push stores at sp then decrements
        self.sp_hi_pending = None
        self.min_sp = 0
        self.irq_off = False      # True between cli and the instruction after the SREG restore
        self.irq_restore = False  # True: `out SREG` executed, the I flag comes back after the next instruction
        self.irq_touched = False
        self.cli_done = False
        self.sreg_serial = 0
        self.max_steps = max_steps
        self.back_edge_limit = None
        self.back_edges = 0
        self.inputs = []
        self.stores = {}
        self.pc = 0
        self.report = {"loads": 0, "stores": 0, "max_frame": 0, "steps": 0}

    # ---- emission helpers
    def tmp(self, expr, ctype="uint8_t"):
        n = "t%d" % self.ntmp
        self.ntmp += 1
        self.out.append("    %s %s = (%s)(%s);" % (ctype, n, ctype, expr))
        return Sym(n)

    def cexpr(self, v):
        if isinstance(v, int):
            return "0x%xu" % (v & 0xff)
        if isinstance(v, Sym):
            if v.e.startswith("entry_"):
                raise ExecError("register value undefined at entry (%s) used as data" % v.e)
            return v.e
        raise ExecError("value of kind %s used as data" % type(v).__name__ + (": " + v.why if isinstance(v, Poison) else ""))

    def is_data(self, v):
        return isinstance(v, (int, Sym))

    def cbit(self, what="carry"):
        c = self.carry if what == "carry" else self.tflag
        if c is None:
            raise ExecError("%s flag used but its value is unknown" % what)
        if isinstance(c, PPend):
            raise ExecError("carry of an unfinished pointer addition used as data")
        return c

    def rname(self, op):
        m = re.match(r"^[rR](\d+)$", op)
        if not m or int(m.group(1)) > 31:
            raise ExecError("bad register operand " + op)
        return "r%d" % int(m.group(1))

    def imm(self, s):
        try:
            v = int(s.strip(), 0)
        except ValueError:
            raise ExecError("immediate is not a literal: " + s)
        if not -128 <= v <= 255:
            raise ExecError("immediate out of the 8-bit range: " + s)
        return v & 0xff

    def setreg(self, r, v):
        old = self.reg[r]
        if isinstance(old, PPend) and self.carry is old:
            self.carry = None
        self.reg[r] = v

    # ---- pointers
    def pair(self, base):
        """the Ptr held in register pair r(base+1):r(base)"""
        lo, hi = self.reg["r%d" % base], self.reg["r%d" % (base + 1)]
        if isinstance(lo, PHalf) and isinstance(hi, PHalf) and not lo.hi and hi.hi and (lo.region, lo.off) == (hi.region, hi.off):
            return Ptr(lo.region, lo.off)
        if isinstance(lo, PPend) or isinstance(hi, PPend):
            raise ExecError("pointer register pair r%d:r%d used in the middle of a 16-bit addition" % (base + 1, base))
        raise ExecError("register pair r%d:r%d is not a known pointer (kinds %s/%s): address depends on data or is wild" %
                        (base + 1, base, type(hi).__name__, type(lo).__name__))

    def setpair(self, base, p):
        self.setreg("r%d" % base, PHalf(p.region, p.off, False))
        self.setreg("r%d" % (base + 1), PHalf(p.region, p.off, True))

    def check_access(self, a, write):
        kind = "store" if write else "load"
        if a.region == "stack":
            if self.sp_hi_pending is not None:
                raise ExecError("stack access while the stack pointer is half-updated")
            if a.off > 0:
                raise ExecError("%s of the return address or the caller's frame (stack+%d)" % (kind, a.off))
            if a.off <= self.sp:
                raise ExecError("%s at or below the stack pointer (stack%d, sp=stack%d)" % (kind, a.off, self.sp))
            return
        if a.region not in self.regions:
            raise ExecError("access to unknown region " + a.region)
        if a.off < 0 or a.off + 1 > self.regions[a.region]:
            raise ExecError("%s outside object '%s' (offset %d, object size %d)" % (kind, a.region, a.off, self.regions[a.region]))

    def load(self, a):
        self.check_access(a, False)
        self.report["loads"] += 1
        key = (a.region, a.off)
        if key in self.mem:
            return self.mem[key]
        if a.region == "stack":
            raise ExecError("load of uninitialised stack slot stack%d" % a.off)
        cn = "in_%s_%d" % (a.region, a.off)
        self.inputs.append((a.region, a.off, cn))
        v = Sym(cn)
        self.mem[key] = v
        return v

    def store(self, a, v):
        self.check_access(a, True)
        self.report["stores"] += 1
        if a.region != "stack":
            self.cexpr(v)           # only defined data may reach an argument object
            self.stores[(a.region, a.off)] = 1
        elif isinstance(v, PPend):
            raise ExecError("store of a half-computed pointer")
        self.mem[(a.region, a.off)] = v

    def set_sp(self, off):
        if off > 0:
            raise ExecError("stack pointer moved above its entry value")
        self.sp = off
        self.min_sp = min(self.min_sp, off)
        for k in [k for k in self.mem if k[0] == "stack" and k[1] <= off]:
            del self.mem[k]       # dead: an interrupt may overwrite it

    def mem_operand(self, op):
        """-> (address Ptr, post-action) for X, X+, -X, Y+q, Z+q ..."""
        m = re.match(r"^(-)?([XYZ])(\+)?(\d+)?$", op.replace(" ", ""))
        if not m:
            raise ExecError("bad memory operand " + op)
        pre, reg, plus, q = m.groups()
        base = PAIRS[reg]
        p = self.pair(base)
        if q is not None:
            if pre or not plus or reg == "X":
                raise ExecError("bad displacement operand " + op)
            if int(q) > 63:
                raise ExecError("displacement above 63: " + op)
            return Ptr(p.region, p.off + int(q)), None
        if pre and plus:
            raise ExecError("bad memory operand " + op)
        if pre:
            np_ = Ptr(p.region, p.off - 1)
            self.setpair(base, np_)
            return np_, None
        if plus:
            return p, (base, Ptr(p.region, p.off + 1))
        return p, None

    # ---- main loop
    def run(self):
        if self.fname not in self.p.labels:
            raise ExecError("function %s not found" % self.fname)
        pc = self.p.labels[self.fname]
        steps = 0
        while True:
            steps += 1
            if steps > self.max_steps:
                raise ExecError("step limit")
            if pc >= len(self.p.ins):
                raise ExecError("fell off the end of the text")
            mn, ops, src = self.p.ins[pc]
            self.pc = pc
            try:
                if self.sp_hi_pending is not None and not self.irq_off:
                    raise ExecError("stack pointer half-updated while interrupts may be enabled")
                restoring = self.irq_restore
                self.irq_touched = False
                r = self.step(mn, ops)
                if restoring and not self.irq_touched:
                    self.irq_off = False      # the instruction after `out SREG` has completed
                    self.irq_restore = False
            except ExecError as e:
                raise ExecError("%s  [at `%s`]" % (e, src))
            if r == "ret":
                break
            pc = r if isinstance(r, int) else pc + 1
        self.report["steps"] = steps
        self.report["max_frame"] = -self.min_sp
        self.report["stack_usage_with_return_address"] = -self.min_sp + 2
        return self.finish()

    def skip_next(self):
        return self.pc + 2        # every instruction of these files is one word or is skipped as a whole anyway

    def shift(self, kind, r):
        v = self.reg[r]
        if not self.is_data(v):
            raise ExecError("shift of a non-data value (%s)" % type(v).__name__)
        cin = 0
        if kind in ("ror", "rol"):
            cin = self.cbit()
        if isinstance(v, int) and isinstance(cin, int):
            if kind in ("lsr", "ror"):
                res, cout = (v >> 1) | (cin << 7), v & 1
            else:
                res, cout = ((v << 1) & 0xff) | cin, v >> 7
        else:
            e = self.cexpr(v)
            ce = self.cexpr(cin)
            if kind in ("lsr", "ror"):
                cout = Sym("(%s & 1)" % e) if isinstance(v, Sym) else v & 1
                if cin == 0:
                    res = self.tmp("%s >> 1" % e)
                else:
                    res = self.tmp("(%s >> 1) | (%s << 7)" % (e, ce))
            else:
                cout = Sym("(%s >> 7)" % e) if isinstance(v, Sym) else v >> 7
                if cin == 0:
                    res = self.tmp("%s << 1" % e)
                else:
                    res = self.tmp("(%s << 1) | %s" % (e, ce))
        self.setreg(r, res)
        self.carry = cout

    def addsub(self, mn, rd, b, zin=None):
        """add/adc/sub/sbc/subi/sbci (and cp/cpc/cpi as compare-only handled by the caller)"""
        sub = mn in ("sub", "sbc", "subi", "sbci")
        withc = mn in ("adc", "sbc", "sbci")
        a = self.reg[rd]
        # --- 16-bit pointer arithmetic, low half
        if isinstance(a, PHalf) and not withc:
            if a.hi or not isinstance(b, int):
                raise ExecError("arithmetic on a pointer byte that is not `lo +/- constant`")
            pend = PPend(a.region, a.off, b, sub, rd)
            self.reg[rd] = pend
            self.carry = pend
            return
        # --- high half
        if isinstance(a, PHalf) and withc:
            pend = self.carry
            if not (a.hi and isinstance(b, int) and isinstance(pend, PPend) and (pend.region, pend.off) == (a.region, a.off)
                    and pend.sub == sub and self.reg[pend.reg] is pend):
                raise ExecError("arithmetic on the high byte of a pointer without the matching low-byte operation")
            k16 = (pend.klo | (b << 8)) & 0xffff
            if sub:
                k16 = (-k16) & 0xffff
            delta = k16 - 0x10000 if k16 & 0x8000 else k16
            noff = a.off + delta
            self.reg[pend.reg] = PHalf(a.region, noff, False)
            self.reg[rd] = PHalf(a.region, noff, True)
            self.carry = None
            return
        if not self.is_data(a) or not self.is_data(b):
            raise ExecError("arithmetic on a non-data value (%s, %s)" % (type(a).__name__, type(b).__name__))
        c = self.cbit() if withc else 0
        if isinstance(a, int) and isinstance(b, int) and isinstance(c, int):
            full = (a - b - c) if sub else (a + b + c)
            self.setreg(rd, full & 0xff)
            self.carry = (full >> 8) & 1
            z = (full & 0xff) == 0
            self.zflag = z if mn not in ("sbc", "sbci") else (z and zin if zin is not None else None)
            return
        terms = [self.cexpr(a)]
        for t in (b, c):
            if t != 0 or isinstance(t, Sym):
                terms.append(self.cexpr(t))
        wide = self.tmp((" - " if sub else " + ").join("(uint16_t)%s" % t for t in terms), "uint16_t")
        self.setreg(rd, self.tmp(wide.e))
        self.carry = Sym("((%s >> 8) & 1)" % wide.e)

    NO_SREG = frozenset(["mov", "movw", "ldi", "ld", "ldd", "st", "std", "push", "pop", "in", "out", "rjmp", "jmp", "cpse",
                         "swap", "bld", "nop", "sbrc", "sbrs", "ret", "cli", "bst", "clc", "sec"])

    def step(self, mn, ops):
        R = self.reg
        zin = self.zflag
        if mn not in self.NO_SREG and not mn.startswith("br"):
            self.zflag = None         # every other instruction changes Z; the concrete cases set it again below
        # ------------------------------------------------------------ control flow
        if mn == "ret":
            if self.sp_hi_pending is not None:
                raise ExecError("ABI: return with a half-updated stack pointer")
            if self.sp != 0:
                raise ExecError("ABI: stack pointer at return differs from its entry value (by %d)" % self.sp)
            for r in CALL_SAVED:
                v = R[r]
                if not (isinstance(v, Sym) and v.e == "entry_" + r):
                    raise ExecError("ABI: call-saved register %s not restored at return" % r)
            if R["r1"] != 0 or not isinstance(R["r1"], int):
                raise ExecError("ABI: r1 (zero register) is not 0 at return")
            if self.irq_off and not self.irq_restore:
                raise ExecError("ABI: interrupts disabled with cli and SREG not restored at return")
            return "ret"
        if mn in ("rjmp", "jmp"):
            tgt = self.p.resolve(ops[0], self.pc)
            if self.back_edge_limit is not None and isinstance(tgt, int) and tgt <= self.pc:
                # per-round extraction: the round loop's back edge is taken at most back_edge_limit times, then execution
                # falls through to the loop exit (the epilogue that stores the state back)
                self.back_edges += 1
                if self.back_edges > self.back_edge_limit:
                    return None
            return tgt
        if mn == "cpse":
            a, b = R[self.rname(ops[0])], R[self.rname(ops[1])]
            if not (isinstance(a, int) and isinstance(b, int)):
                raise ExecError("cpse on a value that is not concrete: control flow depends on data")
            return self.skip_next() if a == b else None
        if mn in ("brcc", "brcs", "brsh", "brlo"):
            c = self.carry
            if not isinstance(c, int):
                raise ExecError("conditional branch on a carry that depends on data (or is unknown)")
            taken = (c == 0) if mn in ("brcc", "brsh") else (c == 1)
            return self.p.resolve(ops[0], self.pc) if taken else None
        if mn in ("sbrc", "sbrs"):
            v = R[self.rname(ops[0])]
            if not isinstance(v, int):
                raise ExecError("%s on a value that is not concrete: control flow depends on data" % mn)
            bit = (v >> int(ops[1], 0)) & 1
            return self.skip_next() if bit == (1 if mn == "sbrs" else 0) else None
        if mn in ("breq", "brne"):
            if zin is None:
                raise ExecError("conditional branch on a Z flag that depends on data (or is unknown)")
            return self.p.resolve(ops[0], self.pc) if zin == (mn == "breq") else None
        if mn.startswith("br"):
            raise ExecError("conditional branch %s: N/V/S/H flags are not tracked (would depend on data)" % mn)
        # ------------------------------------------------------------ stack and special registers
        if mn == "push":
            if self.sp_hi_pending is not None:
                raise ExecError("push while the stack pointer is half-updated")
            v = R[self.rname(ops[0])]
            if isinstance(v, PPend):
                raise ExecError("push of a half-computed pointer")
            self.mem[("stack", self.sp)] = v
            self.report["stores"] += 1
            self.sp -= 1
            self.min_sp = min(self.min_sp, self.sp)
            return None
        if mn == "pop":
            if self.sp_hi_pending is not None:
                raise ExecError("pop while the stack pointer is half-updated")
            if self.sp + 1 > 0:
                raise ExecError("pop of the return address or beyond")
            key = ("stack", self.sp + 1)
            if key not in self.mem:
                raise ExecError("pop of an uninitialised stack slot")
            v = self.mem[key]
            self.report["loads"] += 1
            self.set_sp(self.sp + 1)
            self.setreg(self.rname(ops[0]), v)
            return None
        if mn == "in":
            rd = self.rname(ops[0])
            port = int(ops[1], 0)
            if port == IO_SPL:
                self.setreg(rd, PHalf("stack", self.sp, False))
            elif port == IO_SPH:
                self.setreg(rd, PHalf("stack", self.sp, True))
            elif port == IO_SREG:
                self.sreg_serial += 1
                self.setreg(rd, SregTok((self.sreg_serial, self.irq_off)))
            else:
                raise ExecError("read of unmodelled I/O port 0x%x" % port)
            return None
        if mn == "out":
            port = int(ops[0], 0)
            v = R[self.rname(ops[1])]
            if port == IO_SPH:
                if not (isinstance(v, PHalf) and v.hi and v.region == "stack"):
                    raise ExecError("SPH written with a value that is not the high byte of a stack address")
                if not self.irq_off:
                    raise ExecError("SPH written while interrupts may be enabled")
                self.sp_hi_pending = v
            elif port == IO_SPL:
                h = self.sp_hi_pending
                if not (isinstance(v, PHalf) and not v.hi and v.region == "stack"):
                    raise ExecError("SPL written with a value that is not the low byte of a stack address")
                if h is None:
                    # legal only if the high byte does not change; unknowable without the real address
                    raise ExecError("SPL written without SPH")
                if h.off != v.off:
                    raise ExecError("SPH and SPL written from different addresses")
                self.sp_hi_pending = None
                self.set_sp(v.off)
            elif port == IO_SREG:
                if not isinstance(v, SregTok):
                    raise ExecError("SREG written with a value that was not read from SREG")
                if v.serial[1]:
                    raise ExecError("SREG restored from a copy taken while interrupts were already disabled by this function")
                self.carry = None
                self.tflag = None
                self.irq_restore = True        # I is restored; it takes effect after the next instruction
                self.irq_touched = True
            else:
                raise ExecError("write of unmodelled I/O port 0x%x" % port)
            return None
        if mn == "cli":
            self.irq_off = True
            self.irq_restore = False
            self.irq_touched = True
            return None
        # ------------------------------------------------------------ moves
        if mn == "mov":
            v = R[self.rname(ops[1])]
            if isinstance(v, PPend):
                raise ExecError("copy of a half-computed pointer byte")
            self.setreg(self.rname(ops[0]), v)
            return None
        if mn == "movw":
            d, s = int(self.rname(ops[0])[1:]), int(self.rname(ops[1])[1:])
            if d % 2 or s % 2:
                raise ExecError("movw with an odd register")
            lo, hi = R["r%d" % s], R["r%d" % (s + 1)]
            if isinstance(lo, PPend) or isinstance(hi, PPend):
                raise ExecError("copy of a half-computed pointer")
            self.setreg("r%d" % d, lo)
            self.setreg("r%d" % (d + 1), hi)
            return None
        if mn == "ldi":
            rd = self.rname(ops[0])
            if int(rd[1:]) < 16:
                raise ExecError("ldi needs r16..r31")
            self.setreg(rd, self.imm(ops[1]))
            return None
        if mn in ("ld", "ldd"):
            rd = self.rname(ops[0])
            a, post = self.mem_operand(ops[1])
            v = self.load(a)
            if post:
                self.setpair(post[0], post[1])
            self.setreg(rd, v)
            return None
        if mn in ("st", "std"):
            a, post = self.mem_operand(ops[0])
            self.store(a, R[self.rname(ops[1])])
            if post:
                self.setpair(post[0], post[1])
            return None
        # ------------------------------------------------------------ 16-bit immediate arithmetic
        if mn in ("adiw", "sbiw"):
            base = int(self.rname(ops[0])[1:])
            if base not in (24, 26, 28, 30):
                raise ExecError("adiw/sbiw need r24, r26, r28 or r30")
            k = int(ops[1], 0)
            if not 0 <= k <= 63:
                raise ExecError("adiw/sbiw immediate out of range")
            if mn == "sbiw":
                k = -k
            lo, hi = R["r%d" % base], R["r%d" % (base + 1)]
            if isinstance(lo, int) and isinstance(hi, int):
                w = ((hi << 8 | lo) + k)
                self.carry = 1 if (w < 0 or w > 0xffff) else 0
                w &= 0xffff
                self.setreg("r%d" % base, w & 0xff)
                self.setreg("r%d" % (base + 1), w >> 8)
            else:
                p = self.pair(base)
                self.setpair(base, Ptr(p.region, p.off + k))
                self.carry = None
            return None
        # ------------------------------------------------------------ logic
        if mn in ("eor", "and", "or"):
            rd, rr = self.rname(ops[0]), self.rname(ops[1])
            a, b = R[rd], R[rr]
            if rd == rr and mn == "eor":
                self.setreg(rd, 0)            # clr idiom
                return None
            if not self.is_data(a) or not self.is_data(b):
                raise ExecError("logic operation on a non-data value (%s, %s)" % (type(a).__name__, type(b).__name__))
            cop = {"eor": "^", "and": "&", "or": "|"}[mn]
            if isinstance(a, int) and isinstance(b, int):
                res = {"^": a ^ b, "&": a & b, "|": a | b}[cop]
            elif rd == rr:
                res = a
            else:
                res = self.tmp("%s %s %s" % (self.cexpr(a), cop, self.cexpr(b)))
            self.setreg(rd, res)
            return None                        # C is not affected by eor/and/or
        if mn in ("andi", "ori", "cbr", "sbr"):
            rd = self.rname(ops[0])
            if int(rd[1:]) < 16:
                raise ExecError("%s needs r16..r31" % mn)
            k = self.imm(ops[1])
            if mn == "cbr":
                k ^= 0xff
            a = R[rd]
            if not self.is_data(a):
                raise ExecError("logic operation on a non-data value")
            isand = mn in ("andi", "cbr")
            if isinstance(a, int):
                res = a & k if isand else a | k
            else:
                res = self.tmp("%s %s 0x%xu" % (self.cexpr(a), "&" if isand else "|", k))
            self.setreg(rd, res)
            return None
        if mn == "com":
            rd = self.rname(ops[0])
            a = R[rd]
            if not self.is_data(a):
                raise ExecError("com of a non-data value")
            self.setreg(rd, a ^ 0xff if isinstance(a, int) else self.tmp("~%s" % self.cexpr(a)))
            self.carry = 1                     # com sets C
            return None
        if mn == "neg":
            rd = self.rname(ops[0])
            a = R[rd]
            if not self.is_data(a):
                raise ExecError("neg of a non-data value")
            if isinstance(a, int):
                self.setreg(rd, (-a) & 0xff)
                self.carry = 1 if a else 0
            else:
                self.setreg(rd, self.tmp("0u - %s" % self.cexpr(a)))
                self.carry = Sym("(%s != 0)" % self.cexpr(a))
            return None
        if mn == "clr":
            self.setreg(self.rname(ops[0]), 0)
            return None
        if mn == "swap":
            rd = self.rname(ops[0])
            a = R[rd]
            if not self.is_data(a):
                raise ExecError("swap of a non-data value")
            if isinstance(a, int):
                self.setreg(rd, ((a << 4) | (a >> 4)) & 0xff)
            else:
                e = self.cexpr(a)
                self.setreg(rd, self.tmp("(%s << 4) | (%s >> 4)" % (e, e)))
            return None
        if mn in ("lsl", "lsr", "rol", "ror"):
            self.shift(mn, self.rname(ops[0]))
            return None
        if mn in ("inc", "dec"):
            rd = self.rname(ops[0])
            a = R[rd]
            if not self.is_data(a):
                raise ExecError("inc/dec of a non-data value")
            d = 1 if mn == "inc" else -1
            self.setreg(rd, (a + d) & 0xff if isinstance(a, int) else self.tmp("%s %s 1" % (self.cexpr(a), "+" if d > 0 else "-")))
            self.zflag = (R[rd] == 0) if isinstance(R[rd], int) else None
            return None                        # C not affected
        if mn in ("cp", "cpc", "cpi", "tst"):
            rd = self.rname(ops[0])
            a = R[rd]
            if mn == "tst":
                if not self.is_data(a):
                    raise ExecError("tst of a non-data value")
                self.zflag = (a == 0) if isinstance(a, int) else None
                return None                    # C not affected
            b = self.imm(ops[1]) if mn == "cpi" else R[self.rname(ops[1])]
            if mn == "cpi" and int(rd[1:]) < 16:
                raise ExecError("cpi needs r16..r31")
            if not self.is_data(a) or not self.is_data(b):
                raise ExecError("comparison of a non-data value (%s, %s): pointer comparisons are not modelled" % (type(a).__name__, type(b).__name__))
            c = self.cbit() if mn == "cpc" else 0
            if isinstance(a, int) and isinstance(b, int) and isinstance(c, int):
                full = a - b - c
                self.carry = (full >> 8) & 1
                z = (full & 0xff) == 0
                self.zflag = (z and zin) if mn == "cpc" and zin is not None else (z if mn != "cpc" else None)
            else:
                terms = [self.cexpr(a)] + [self.cexpr(t) for t in (b, c) if t != 0 or isinstance(t, Sym)]
                wide = self.tmp(" - ".join("(uint16_t)%s" % t for t in terms), "uint16_t")
                self.carry = Sym("((%s >> 8) & 1)" % wide.e)
                self.zflag = None              # data dependent: any later breq/brne is refused
            return None
        if mn in ("add", "adc", "sub", "sbc"):
            rd, rr = self.rname(ops[0]), self.rname(ops[1])
            if mn == "sub" and rd == rr:
                self.setreg(rd, 0)
                self.carry = 0
                return None
            self.addsub(mn, rd, R[rr], zin)
            return None
        if mn in ("subi", "sbci"):
            rd = self.rname(ops[0])
            if int(rd[1:]) < 16:
                raise ExecError("%s needs r16..r31" % mn)
            self.addsub(mn, rd, self.imm(ops[1]), zin)
            return None
        if mn == "bst":
            a = R[self.rname(ops[0])]
            b = int(ops[1], 0)
            if not 0 <= b <= 7:
                raise ExecError("bad bit number")
            if not self.is_data(a):
                raise ExecError("bst of a non-data value")
            self.tflag = (a >> b) & 1 if isinstance(a, int) else Sym("((%s >> %d) & 1)" % (self.cexpr(a), b))
            return None
        if mn == "bld":
            rd = self.rname(ops[0])
            a = R[rd]
            b = int(ops[1], 0)
            if not 0 <= b <= 7:
                raise ExecError("bad bit number")
            if not self.is_data(a):
                raise ExecError("bld into a non-data value")
            t = self.cbit("T")
            if isinstance(a, int) and isinstance(t, int):
                self.setreg(rd, (a & ~(1 << b) & 0xff) | (t << b))
            else:
                self.setreg(rd, self.tmp("(%s & 0x%xu) | (%s << %d)" % (self.cexpr(a), 0xff ^ (1 << b), self.cexpr(t), b)))
            return None
        if mn == "clc":
            self.carry = 0
            return None
        if mn == "sec":
            self.carry = 1
            return None
        if mn == "nop":
            return None
        raise ExecError("unmodelled instruction " + mn)

    def finish(self):
        lines = []
        regs = sorted(self.regions)
        lines.append("static void %s(%s)" % (self.out_name, ", ".join("uint8_t *%s" % r for r in regs) or "void"))
        lines.append("{")
        for region, off, cn in self.inputs:
            lines.append("    uint8_t %s = %s[%d];" % (cn, region, off))
        lines += self.out
        for (region, off) in sorted(self.stores):
            lines.append("    %s[%d] = %s;" % (region, off, self.cexpr(self.mem[(region, off)])))
        lines.append("}")
        return "\n".join(lines)


PRELUDE = """#include <stdint.h>
#include <string.h>
"""


def _report(m):
    by = {}
    for (r, o) in m.stores:
        by.setdefault(r, []).append(o)
    rep = dict(m.report, inputs=len(m.inputs))
    if list(by) == ["state"] or not by:
        rep["written"] = sorted(by.get("state", []))
    else:
        rep["written"] = {r: sorted(v) for r, v in by.items()}
    return rep


def translate(asm_text, fname, first_round, out_name):
    """common executor interface (see validate.py): ascon_permute(state, first_round):
    state pointer in r25:r24, first_round in r22 (r23 undefined)"""
    prog = Program(asm_text)
    m = Machine(prog, fname, out_name, {"state": 40}, {"r24": Ptr("state", 0), "r22": first_round})
    body = m.run()
    return PRELUDE + body, _report(m)


def translate_free(asm_text, fname, out_name):
    """ascon_backend_free(state): state pointer in r25:r24"""
    prog = Program(asm_text)
    m = Machine(prog, fname, out_name, {"state": 40}, {"r24": Ptr("state", 0)})
    body = m.run()
    return PRELUDE + body, _report(m)


def translate_masked(asm_text, fname, first_round, out_name, shares, max_steps=2000000, back_edge_limit=None):
    """ascon_x<n>_permute(state, first_round, preserve) of ascon-x2-asm-avr5.S / ascon-x3-asm-avr5.S:
    state in r25:r24, first_round in r22, preserve in r21:r20.
    shares: ASCON_MASKED_MAX_SHARES the text was pre-processed with (int), or the (key, data, max)
    triple used by lib/asmgen.py.  The masked state object is 5 words x max_shares x 8 bytes
    (each share a big-endian 64-bit byte string, direct-XOR masking, no share rotation); preserve is
    (n-1) x 8 bytes.  Emits `static void <out_name>(uint8_t *preserve, uint8_t *state)`.
    NOTE: like ascon_permute of ascon-asm-avr5.S the round loop is a do-while on the round constant
    (`subi r22,15 ... cpse r22,60`): for first_round >= 12 it does not fall through but runs until the
    8-bit constant wraps round to 0x3c (first_round 12: 256 iterations, 13: 255, 255: 13); the
    executor follows that faithfully, hence the large step limit."""
    mx = shares if isinstance(shares, int) else int(list(shares)[-1])
    m_ = re.match(r"^ascon_x(\d)_permute$", fname)
    if not m_:
        raise ExecError("not a masked permutation entry point: " + fname)
    n = int(m_.group(1))
    if mx < n:
        raise ExecError("%s needs at least %d shares in the state (max shares %d)" % (fname, n, mx))
    prog = Program(asm_text)
    m = Machine(prog, fname, out_name, {"state": 5 * mx * 8, "preserve": (n - 1) * 8},
                {"r24": Ptr("state", 0), "r22": first_round, "r20": Ptr("preserve", 0)}, max_steps=max_steps)
    m.back_edge_limit = back_edge_limit
    body = m.run()
    return PRELUDE + body, _report(m)
