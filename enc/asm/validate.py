#!/usr/bin/env python3
"""Common self-test for an assembly executor module.

usage: validate.py <module> <path-to-.S> <layout> [--func ascon_permute] [--cbmc] [--defines -DX ...]

<module>  python module in this directory exposing
              translate(asm_text, fname, first_round, out_name) -> (c_text, report)
          where c_text defines `static void <out_name>(uint8_t *state)` (plus any helpers it needs, using
          only <stdint.h>/<string.h>), implementing what the assembly function does to the 40-byte state
          object for that concrete first_round; and raising ExecError on ABI / footprint / data-dependent
          control or address violations.  report is a dict (loads, stores, max_frame, ...).
          preprocess(path, incdirs, defines) -> text  (gcc -E) is taken from the module too.
<layout>  how the 40-byte state object represents the five canonical 64-bit words:
            sliced64-le : five little-endian 64-bit words (x86-64, armv8a, riscv64, xtensa?)
            sliced32    : ten 32-bit little-endian words, W[2i] = even bits, W[2i+1] = odd bits of word i
            sliced32-be : the same with big-endian 32-bit words (m68k)
            bytes-be    : 40 big-endian bytes (AVR)
Checks: for first_round 0..12 the emitted C equals spec_permute (a) on 2000 random states natively and
(b) with --cbmc for ALL states by bounded model checking (cadical).
"""
import argparse, importlib, os, subprocess, sys, tempfile, shutil
HERE = os.path.dirname(os.path.abspath(__file__))
VERIF = os.path.dirname(os.path.dirname(HERE))
sys.path.insert(0, HERE)

LAYOUT_C = r'''
#include <stdint.h>
#include <string.h>
static void to_canon(const uint8_t *s, uint64_t x[5]) {
  unsigned i, j;
#if defined(LAYOUT_SLICED64_LE)
  for (i = 0; i < 5; ++i) { uint64_t v = 0; for (j = 0; j < 8; ++j) v |= (uint64_t)s[8*i+j] << (8*j); x[i] = v; }
#elif defined(LAYOUT_SLICED32) || defined(LAYOUT_SLICED32_BE)
  for (i = 0; i < 5; ++i) { uint32_t e = 0, o = 0; uint64_t v = 0;
    for (j = 0; j < 4; ++j) {
#if defined(LAYOUT_SLICED32_BE)
      e |= (uint32_t)s[8*i+j] << (24-8*j); o |= (uint32_t)s[8*i+4+j] << (24-8*j);
#else
      e |= (uint32_t)s[8*i+j] << (8*j); o |= (uint32_t)s[8*i+4+j] << (8*j);
#endif
    }
    for (j = 0; j < 32; ++j) { v |= (uint64_t)((e >> j) & 1) << (2*j); v |= (uint64_t)((o >> j) & 1) << (2*j+1); }
    x[i] = v; }
#else
  for (i = 0; i < 5; ++i) { uint64_t v = 0; for (j = 0; j < 8; ++j) v = (v << 8) | s[8*i+j]; x[i] = v; }
#endif
}
static void from_canon(uint8_t *s, const uint64_t x[5]) {
  unsigned i, j;
#if defined(LAYOUT_SLICED64_LE)
  for (i = 0; i < 5; ++i) for (j = 0; j < 8; ++j) s[8*i+j] = (uint8_t)(x[i] >> (8*j));
#elif defined(LAYOUT_SLICED32) || defined(LAYOUT_SLICED32_BE)
  for (i = 0; i < 5; ++i) { uint32_t e = 0, o = 0;
    for (j = 0; j < 32; ++j) { e |= (uint32_t)((x[i] >> (2*j)) & 1) << j; o |= (uint32_t)((x[i] >> (2*j+1)) & 1) << j; }
    for (j = 0; j < 4; ++j) {
#if defined(LAYOUT_SLICED32_BE)
      s[8*i+j] = (uint8_t)(e >> (24-8*j)); s[8*i+4+j] = (uint8_t)(o >> (24-8*j));
#else
      s[8*i+j] = (uint8_t)(e >> (8*j)); s[8*i+4+j] = (uint8_t)(o >> (8*j));
#endif
    } }
#else
  for (i = 0; i < 5; ++i) for (j = 0; j < 8; ++j) s[8*i+j] = (uint8_t)(x[i] >> (56-8*j));
#endif
}
'''

def main():
    ap = argparse.ArgumentParser()
    ap.add_argument("module"); ap.add_argument("asm"); ap.add_argument("layout", choices=["sliced64-le", "sliced32", "sliced32-be", "bytes-be"])
    ap.add_argument("--func", default="ascon_permute"); ap.add_argument("--cbmc", action="store_true")
    ap.add_argument("--defines", default="", help="comma separated extra preprocessor flags, e.g. -DX=1,-DY"); ap.add_argument("--rounds", default="0-12")
    a = ap.parse_args()
    mod = importlib.import_module(a.module)
    tmp = tempfile.mkdtemp(prefix="asmval-")
    try:
        repo = os.environ.get("VERIF_REPO", "/repo")
        text = mod.preprocess(a.asm, [os.path.join(repo, "src"), os.path.join(repo, "src/core"), os.path.join(repo, "src/masking"), tmp], [d for d in a.defines.split(",") if d])
        lo, hi = [int(v) for v in a.rounds.split("-")]
        parts, reports = [], {}
        for r in range(lo, hi + 1):
            c, rep = mod.translate(text, a.func, r, "asm_r%d" % r)
            parts.append(c); reports[r] = rep
        lay = "LAYOUT_" + a.layout.upper().replace("-", "_")
        disp = "static void asm_dispatch(uint8_t *s, unsigned r) { switch (r) {" + "".join(" case %d: asm_r%d(s); break;" % (r, r) for r in range(lo, hi + 1)) + " } }\n"
        gen = os.path.join(tmp, "gen.c")
        open(gen, "w").write("#define %s 1\n" % lay + LAYOUT_C + "\n".join(parts) + "\n" + disp + r'''
#include "spec.h"
void spec_P(uint64_t x[5], unsigned r) { spec_permute(x, r); }
#ifndef CBMC_HARNESS
#include <stdio.h>
#include <stdlib.h>
int main(void) { unsigned r, it, i; int bad = 0; srand(12345);
  for (r = %d; r <= %d; ++r) for (it = 0; it < 2000; ++it) { uint8_t s[40]; uint64_t x[5], y[5];
    for (i = 0; i < 40; ++i) s[i] = (uint8_t)rand(); if (it == 0) memset(s, 0, 40); if (it == 1) memset(s, 0xff, 40);
    to_canon(s, x); asm_dispatch(s, r); to_canon(s, y); spec_permute(x, r);
    for (i = 0; i < 5; ++i) if (x[i] != y[i]) { bad++; break; } }
  printf("native random test: %%s\n", bad ? "MISMATCH" : "ok"); return bad != 0; }
#else
uint64_t nondet_u64(void);
void harness(void) { uint64_t x[5], y[5]; uint8_t s[40]; unsigned i; int ok = 1;
  for (i = 0; i < 5; ++i) x[i] = nondet_u64(); from_canon(s, x); asm_dispatch(s, ROUND); to_canon(s, y); spec_permute(x, ROUND);
  for (i = 0; i < 5; ++i) ok &= (x[i] == y[i]); __CPROVER_assert(ok, "assembly equals specification"); }
#endif
''' % (lo, hi))
        exe = os.path.join(tmp, "t")
        r = subprocess.run(["gcc", "-O1", "-w", "-I", os.path.join(VERIF, "spec"), gen, os.path.join(VERIF, "spec/spec.c"), "-o", exe], capture_output=True, text=True)
        if r.returncode != 0:
            print("generated C does not compile:\n" + r.stderr[-3000:]); return 1
        r = subprocess.run([exe], capture_output=True, text=True); print(r.stdout.strip())
        rc = r.returncode
        for k in sorted(reports): print("round %2d report: %s" % (k, reports[k]))
        if a.cbmc and rc == 0:
            for rr in range(lo, hi + 1):
                gb = os.path.join(tmp, "h.gb")
                subprocess.run(["goto-cc", "-DCBMC_HARNESS", "-DROUND=%d" % rr, "-I", os.path.join(VERIF, "spec"), gen, os.path.join(VERIF, "spec/spec.c"), "-o", gb], check=True, capture_output=True)
                out = subprocess.run(["cbmc", gb, "--function", "harness", "--sat-solver", "cadical", "--unwind", "70", "--unwinding-assertions", "--drop-unused-functions"], capture_output=True, text=True).stdout
                ok = "VERIFICATION SUCCESSFUL" in out
                print("cbmc round %2d: %s" % (rr, "equal to specification for all states" if ok else "FAILED"))
                rc |= (not ok)
        return rc
    finally:
        shutil.rmtree(tmp, ignore_errors=True)
sys.exit(main())
