"""Partial-evaluating symbolic executor for the RISC-V assembly files of ascon-suite
(DESIGN 3 C18): ascon-asm-riscv32e.S, ascon-asm-riscv32i.S (RV32, bit-sliced 32-bit
state) and ascon-asm-riscv64i.S (RV64, five little-endian 64-bit words).

Same method as x86_64.py: control flow and addresses are evaluated concretely from
the public arguments (a0 = state pointer, a1 = first_round); data stays symbolic and
is emitted as straight-line SSA C over uintXLEN_t temporaries (so every result is
wrapped to the register width by the C type).  Enforced on the executed path:
  * ABI   : at `ret` sp, ra, gp, tp and the callee-saved registers (s0-s11; s0-s1
            on RV32E) hold their entry values;
  * footprint : every load/store hits the 40-byte state object (inside its size,
            naturally aligned) or the function's own stack frame, i.e. between the
            current sp and the entry sp;
  * secret independence : branch operands, register shift amounts and addresses
            must be concrete; a symbolic (data) value there is refused;
  * ISA   : RV32E code may only name x0-x15; 64-bit loads/stores and the *w forms
            exist on RV64 only; unmodelled instructions are refused.
"""
import re

from x86_64 import ExecError, Sym, Ptr, PRELUDE
from x86_64 import preprocess as _gcc_preprocess

LAYOUT = "sliced32"          # riscv32e / riscv32i ; the riscv64i file uses LAYOUTS[...] = "sliced64-le"
LAYOUTS = {
    "ascon-asm-riscv32e.S": "sliced32",
    "ascon-asm-riscv32i.S": "sliced32",
    "ascon-asm-riscv64i.S": "sliced64-le",
}
_HOST_UNDEF = ["-U__x86_64__", "-U__x86_64", "-U__i386__", "-U__i386"]
TARGET_DEFINES = {
    "ascon-asm-riscv32e.S": ["-D__riscv", "-D__riscv_xlen=32", "-D__riscv_32e"] + _HOST_UNDEF[:2],
    "ascon-asm-riscv32i.S": ["-D__riscv", "-D__riscv_xlen=32"] + _HOST_UNDEF[:2],
    "ascon-asm-riscv64i.S": ["-D__riscv", "-D__riscv_xlen=64"] + _HOST_UNDEF[:2],
}

ABI_NAMES = ["zero", "ra", "sp", "gp", "tp", "t0", "t1", "t2", "s0", "s1"] + \
            ["a%d" % i for i in range(8)] + ["s%d" % i for i in range(2, 12)] + ["t3", "t4", "t5", "t6"]
REGNUM = {n: i for i, n in enumerate(ABI_NAMES)}
REGNUM["fp"] = 8
REGNUM.update({"x%d" % i: i for i in range(32)})
CALLEE_SAVED_I = [8, 9] + list(range(18, 28))      # s0-s11
CALLEE_SAVED_E = [8, 9]                            # ilp32e: s0, s1
ALWAYS_PRESERVED = [1, 2, 3, 4]                    # ra (needed by ret), sp, gp, tp


class Entry:
    """the (unknown, non-data) value a register held at function entry"""
    __slots__ = ("name",)

    def __init__(self, name):
        self.name = name


def preprocess(path, incdirs, defines):
    """gcc -E on an x86-64 host; the target is recorded in a marker comment for translate()"""
    text = _gcc_preprocess(path, incdirs, defines)
    xlen, rve = None, False
    for d in defines:
        m = re.match(r"^-D__riscv_xlen=(\d+)$", d)
        if m:
            xlen = int(m.group(1))
        if d in ("-D__riscv_32e", "-D__riscv_e", "-D__riscv_32e=1", "-D__riscv_e=1"):
            rve = True
    if xlen is not None:
        text = "# verif-target: xlen=%d e=%d\n" % (xlen, 1 if rve else 0) + text
    return text


class Program:
    def __init__(self, text):
        self.ins = []        # (mnemonic, [operands], source line)
        self.labels = {}     # label -> instruction index
        self.xlen = None
        self.rve = False
        m = re.search(r"^# verif-target: xlen=(\d+) e=(\d)", text, re.M)
        if m:
            self.xlen, self.rve = int(m.group(1)), m.group(2) == "1"
        for raw in text.splitlines():
            line = raw.split("#")[0].split("//")[0]
            for stmt in line.split(";"):
                stmt = stmt.strip()
                while True:
                    m = re.match(r"^([.\w$]+):\s*(.*)$", stmt)
                    if not m:
                        break
                    self.labels[m.group(1)] = len(self.ins)
                    stmt = m.group(2).strip()
                if not stmt or stmt.startswith("."):
                    continue          # directives carry no semantics here (no data tables in these files)
                parts = stmt.split(None, 1)
                ops = [o.strip() for o in parts[1].split(",")] if len(parts) > 1 else []
                self.ins.append((parts[0].lower(), ops, raw.strip()))
        if self.xlen is None:
            self.xlen = 64 if any(i[0] in ("ld", "sd") for i in self.ins) else 32


class Machine:
    def __init__(self, prog, fname, out_name, regions, args, max_steps=400000):
        self.p = prog
        self.xlen = prog.xlen
        self.rve = prog.rve
        self.mask = (1 << self.xlen) - 1
        self.ctype = "uint%d_t" % self.xlen
        self.fname = fname
        self.out_name = out_name
        self.out = []
        self.ntmp = 0
        self.regions = dict(regions)
        self.mem = {}         # (region, off) -> (size, value)
        self.reg = [Entry(ABI_NAMES[i]) for i in range(32)]
        self.reg[0] = 0
        self.reg[2] = Ptr("stack", 0)
        for k, v in args.items():
            self.reg[REGNUM[k]] = v
        self.min_sp = 0
        self.max_steps = max_steps
        self.inputs = []      # (region, off, size, cname)
        self.stores = {}      # (region, off) -> size
        self.pc = 0
        self.report = {"loads": 0, "stores": 0, "max_frame": 0, "steps": 0}

    # ---- values
    def tmp(self, expr):
        n = "t%d" % self.ntmp
        self.ntmp += 1
        self.out.append("    %s %s = %s;" % (self.ctype, n, expr))
        return Sym(n)

    def cexpr(self, v):
        if isinstance(v, int):
            return "UINT%d_C(0x%x)" % (self.xlen, v & self.mask)
        if isinstance(v, Sym):
            return v.e
        if isinstance(v, Entry):
            raise ExecError("entry value of register %s (not an argument) used as data" % v.name)
        raise ExecError("value of kind %s used as data" % type(v).__name__)

    def signed(self, v):
        v &= self.mask
        return v - (1 << self.xlen) if v >> (self.xlen - 1) else v

    def regno(self, name):
        n = REGNUM.get(name.strip().lower())
        if n is None:
            raise ExecError("unknown register " + name)
        if self.rve and n >= 16:
            raise ExecError("register %s (x%d) does not exist on RV32E" % (name, n))
        return n

    def rd(self, name):
        return self.reg[self.regno(name)]

    def wr(self, name, v):
        n = self.regno(name)
        if n == 0:
            return
        if isinstance(v, int):
            v &= self.mask
        if n == 2:
            if not (isinstance(v, Ptr) and v.region == "stack"):
                raise ExecError("stack pointer set to something that is not a stack address")
            if v.off > 0:
                raise ExecError("stack pointer moved above its entry value")
            self.min_sp = min(self.min_sp, v.off)
        self.reg[n] = v

    def imm(self, s, bits=12, signed=True):
        try:
            v = int(s.strip(), 0)
        except ValueError:
            raise ExecError("immediate operand is not a number: " + s)
        if bits is not None:
            lo, hi = (-(1 << (bits - 1)), (1 << (bits - 1)) - 1) if signed else (0, (1 << bits) - 1)
            if not lo <= v <= hi:
                raise ExecError("immediate %d does not fit the %d-bit field" % (v, bits))
        return v

    # ---- memory
    def addr(self, op):
        m = re.match(r"^\s*([^()]*)\(\s*(\w+)\s*\)\s*$", op)
        if not m:
            raise ExecError("bad memory operand " + op)
        d = self.imm(m.group(1), 12) if m.group(1).strip() else 0
        b = self.rd(m.group(2))
        if isinstance(b, Ptr):
            return Ptr(b.region, b.off + d)
        raise ExecError("base of %s is not a pointer (kind %s): address depends on data or is wild" % (op, type(b).__name__))

    def check_access(self, a, size, write):
        what = "store" if write else "load"
        if a.off % size:
            raise ExecError("misaligned %d-byte %s at %s%+d" % (size, what, a.region, a.off))
        if a.region == "stack":
            sp = self.reg[2]
            if a.off + size > 0:
                raise ExecError("%s at or above the entry stack pointer (caller's frame, stack%+d)" % (what, a.off))
            if a.off < sp.off:
                raise ExecError("%s below the stack pointer (stack%+d, sp at stack%+d)" % (what, a.off, sp.off))
            return
        if a.region not in self.regions:
            raise ExecError("access to unknown region " + a.region)
        if a.off < 0 or a.off + size > self.regions[a.region]:
            raise ExecError("%s outside object '%s' (offset %d size %d, object size %d)" %
                            (what, a.region, a.off, size, self.regions[a.region]))

    def overlap(self, a, size):
        for (r, o), (sz, _) in self.mem.items():
            if r == a.region and (o, sz) != (a.off, size) and o < a.off + size and a.off < o + sz:
                raise ExecError("access at %s%+d (size %d) overlaps a cell of different extent (%d bytes at %+d)" %
                                (a.region, a.off, size, sz, o))

    def load(self, a, size):
        self.check_access(a, size, False)
        self.report["loads"] += 1
        key = (a.region, a.off)
        self.overlap(a, size)
        if key in self.mem:
            return self.mem[key][1]
        if a.region == "stack":
            raise ExecError("load of uninitialised stack slot stack%+d" % a.off)
        cn = "in_%s_%d" % (a.region, a.off)
        self.inputs.append((a.region, a.off, size, cn))
        v = Sym(cn)
        self.mem[key] = (size, v)
        return v

    def store(self, a, size, v):
        self.check_access(a, size, True)
        self.report["stores"] += 1
        self.overlap(a, size)
        if a.region != "stack":
            if not isinstance(v, (int, Sym)):
                raise ExecError("non-data value (%s) stored into object '%s'" % (type(v).__name__, a.region))
            self.stores[(a.region, a.off)] = size
        elif size * 8 != self.xlen and not isinstance(v, (int, Sym)):
            raise ExecError("partial-width spill of a non-data value")
        self.mem[(a.region, a.off)] = (size, v)

    # ---- arithmetic
    def alu(self, op, a, b):
        """a OP b on XLEN bits; a, b are int / Sym / Ptr"""
        if isinstance(a, int) and isinstance(b, int):
            if op == "^": r = a ^ b
            elif op == "&": r = a & b
            elif op == "|": r = a | b
            elif op == "+": r = a + b
            else: r = a - b
            return r & self.mask
        if isinstance(a, Ptr) and isinstance(b, int) and op in "+-":
            d = self.signed(b)
            return Ptr(a.region, a.off + d if op == "+" else a.off - d)
        if isinstance(b, Ptr) and isinstance(a, int) and op == "+":
            return Ptr(b.region, b.off + self.signed(a))
        if isinstance(a, Ptr) and isinstance(b, Ptr) and a.region == b.region and op == "-":
            return (a.off - b.off) & self.mask
        if isinstance(a, Ptr) or isinstance(b, Ptr):
            raise ExecError("pointer combined with a data value or by an operation other than +/- (address would depend on data)")
        return self.tmp("%s %s %s" % (self.cexpr(a), op, self.cexpr(b)))

    def shift(self, kind, v, n, width=None):
        width = width or self.xlen
        if not isinstance(n, int):
            raise ExecError("shift amount depends on data")
        n &= width - 1
        if width != self.xlen:
            raise ExecError("32-bit shifts on RV64 are not modelled")
        if isinstance(v, int):
            if kind == "sll": return (v << n) & self.mask
            if kind == "srl": return (v & self.mask) >> n
            return (self.signed(v) >> n) & self.mask
        e = self.cexpr(v)
        if n == 0:
            return v
        if kind == "sll": return self.tmp("%s << %d" % (e, n))
        if kind == "srl": return self.tmp("%s >> %d" % (e, n))
        return self.tmp("(%s)((int%d_t)%s >> %d)" % (self.ctype, self.xlen, e, n))

    # ---- main loop
    def run(self):
        if self.fname not in self.p.labels:
            raise ExecError("function %s not found" % self.fname)
        pc = self.p.labels[self.fname]
        steps = 0
        while True:
            steps += 1
            if steps > self.max_steps:
                raise ExecError("step limit")
            if pc >= len(self.p.ins):
                raise ExecError("fell off the end of the text")
            mn, ops, src = self.p.ins[pc]
            self.pc = pc
            try:
                r = self.step(mn, ops)
            except ExecError as e:
                raise ExecError("%s  [at `%s`]" % (e, src))
            if r == "ret":
                break
            pc = r if isinstance(r, int) else pc + 1
        self.report["steps"] = steps
        self.report["max_frame"] = -self.min_sp
        return self.finish()

    def target(self, name):
        name = name.strip()
        if name not in self.p.labels:
            raise ExecError("jump to unknown label " + name)
        return self.p.labels[name]

    def need(self, ops, n):
        if len(ops) != n:
            raise ExecError("expected %d operands, got %d" % (n, len(ops)))

    def check_return(self):
        sp = self.reg[2]
        if not isinstance(sp, Ptr) or sp.region != "stack" or sp.off != 0:
            raise ExecError("ABI: stack pointer at return differs from its entry value")
        for n in ALWAYS_PRESERVED + (CALLEE_SAVED_E if self.rve else CALLEE_SAVED_I):
            if n == 2:
                continue
            v = self.reg[n]
            if not (isinstance(v, Entry) and v.name == ABI_NAMES[n]):
                raise ExecError("ABI: register %s (x%d) does not hold its entry value at return" % (ABI_NAMES[n], n))

    def step(self, mn, ops):
        if mn == "ret":
            self.need(ops, 0)
            self.check_return()
            return "ret"
        if mn == "nop":
            return None
        if mn == "j":
            self.need(ops, 1)
            return self.target(ops[0])
        if mn in ("beq", "bne", "blt", "bge", "bltu", "bgeu", "bgt", "ble", "bgtu", "bleu",
                  "beqz", "bnez", "bltz", "bgez", "blez", "bgtz"):
            if mn.endswith("z"):
                self.need(ops, 2)
                a, b, lab = self.rd(ops[0]), 0, ops[1]
                base = {"beqz": "beq", "bnez": "bne", "bltz": "blt", "bgez": "bge", "blez": "ble", "bgtz": "bgt"}[mn]
            else:
                self.need(ops, 3)
                a, b, lab = self.rd(ops[0]), self.rd(ops[1]), ops[2]
                base = mn
            if not (isinstance(a, int) and isinstance(b, int)):
                raise ExecError("conditional branch on a value that is not concrete (depends on data)")
            sa, sb = self.signed(a), self.signed(b)
            cond = {"beq": a == b, "bne": a != b, "blt": sa < sb, "bge": sa >= sb, "bgt": sa > sb, "ble": sa <= sb,
                    "bltu": a < b, "bgeu": a >= b, "bgtu": a > b, "bleu": a <= b}[base]
            tgt = self.target(lab)
            return tgt if cond else None
        if mn in ("lw", "ld", "lwu"):
            self.need(ops, 2)
            if mn in ("ld", "lwu") and self.xlen != 64:
                raise ExecError("%s does not exist on RV32" % mn)
            size = 8 if mn == "ld" else 4
            v = self.load(self.addr(ops[1]), size)
            if size * 8 != self.xlen:
                if mn == "lwu":
                    pass         # cells of 4 bytes hold zero-extended values
                elif isinstance(v, int):
                    v = self.signed32(v)
                elif isinstance(v, Sym):
                    v = self.tmp("(uint64_t)(int64_t)(int32_t)%s" % v.e)
                else:
                    raise ExecError("partial-width reload of a non-data value")
            self.wr(ops[0], v)
            return None
        if mn in ("sw", "sd"):
            self.need(ops, 2)
            if mn == "sd" and self.xlen != 64:
                raise ExecError("sd does not exist on RV32")
            size = 8 if mn == "sd" else 4
            v = self.rd(ops[0])
            if size * 8 != self.xlen:
                if isinstance(v, int):
                    v &= 0xffffffff
                elif isinstance(v, Sym):
                    v = self.tmp("%s & UINT64_C(0xffffffff)" % v.e)
            self.store(self.addr(ops[1]), size, v)
            return None
        if mn == "li":
            self.need(ops, 2)
            v = self.imm(ops[1], None)
            if not -(1 << (self.xlen - 1)) <= v <= self.mask:
                raise ExecError("li constant does not fit XLEN")
            self.wr(ops[0], v & self.mask)
            return None
        if mn == "lui":
            self.need(ops, 2)
            v = self.imm(ops[1], 20, signed=False) << 12
            if self.xlen == 64 and v & 0x80000000:
                v |= 0xffffffff00000000
            self.wr(ops[0], v)
            return None
        if mn == "mv":
            self.need(ops, 2)
            self.wr(ops[0], self.rd(ops[1]))
            return None
        if mn == "not":
            self.need(ops, 2)
            v = self.rd(ops[1])
            self.wr(ops[0], (~v) & self.mask if isinstance(v, int) else self.tmp("~%s" % self.cexpr(v)))
            return None
        if mn == "neg":
            self.need(ops, 2)
            self.wr(ops[0], self.alu("-", 0, self.rd(ops[1])))
            return None
        if mn in ("xor", "or", "and", "add", "sub"):
            self.need(ops, 3)
            cop = {"xor": "^", "or": "|", "and": "&", "add": "+", "sub": "-"}[mn]
            self.wr(ops[0], self.alu(cop, self.rd(ops[1]), self.rd(ops[2])))
            return None
        if mn in ("xori", "ori", "andi", "addi"):
            self.need(ops, 3)
            cop = {"xori": "^", "ori": "|", "andi": "&", "addi": "+"}[mn]
            self.wr(ops[0], self.alu(cop, self.rd(ops[1]), self.imm(ops[2], 12) & self.mask))
            return None
        if mn in ("slli", "srli", "srai"):
            self.need(ops, 3)
            n = self.imm(ops[2], None)
            if not 0 <= n < self.xlen:
                raise ExecError("shift amount %d out of range for XLEN %d" % (n, self.xlen))
            self.wr(ops[0], self.shift(mn[:3], self.rd(ops[1]), n))
            return None
        if mn in ("sll", "srl", "sra"):
            self.need(ops, 3)
            self.wr(ops[0], self.shift(mn, self.rd(ops[1]), self.rd(ops[2])))
            return None
        raise ExecError("unmodelled instruction " + mn)

    @staticmethod
    def signed32(v):
        v &= 0xffffffff
        return v | 0xffffffff00000000 if v & 0x80000000 else v

    def finish(self):
        lines = []
        regs = sorted(self.regions)
        lines.append("static void %s(%s)" % (self.out_name, ", ".join("uint8_t *%s" % r for r in regs) or "void"))
        lines.append("{")
        for region, off, size, cn in self.inputs:
            lines.append("    %s %s = (%s)VLD%d(%s + %d);" % (self.ctype, cn, self.ctype, size * 8, region, off))
        lines += self.out
        for (region, off), size in sorted(self.stores.items()):
            _, v = self.mem[(region, off)]
            lines.append("    VST%d(%s + %d, %s);" % (size * 8, region, off, self.cexpr(v)))
        lines.append("}")
        return "\n".join(lines)


def translate(asm_text, fname, first_round, out_name):
    """common executor interface (see validate.py): a0 = state pointer, a1 = first_round"""
    prog = Program(asm_text)
    m = Machine(prog, fname, out_name, {"state": 40}, {"a0": Ptr("state", 0), "a1": first_round})
    body = m.run()
    rep = dict(m.report, inputs=len(m.inputs), written=sorted(o for (_, o) in m.stores),
               xlen=prog.xlen, rv32e=prog.rve)
    return PRELUDE + body, rep
