"""Partial-evaluating symbolic executor for the Motorola 68k (GNU/MIT syntax) assembly
file of ascon-suite, src/core/ascon-asm-m68k.S (DESIGN 3 C18), in the style of x86_64.py.

Control flow and addresses are evaluated concretely from the public argument
first_round; data stays symbolic and is emitted as straight-line SSA C over uint32_t.
The executor enforces on the path it follows:
  * ABI   : at `rts` %sp equals its entry value and every callee-saved register of the
            m68k SysV/GNU ABI (d2-d7, a2-a6; a6 = %fp) holds its entry value;
  * footprint : every load/store hits the 40-byte state object (inside its size) or the
            function's own stack frame below the return address; the two incoming
            argument slots above the return address may be read (not written);
  * secret independence : a conditional branch, a rotate/shift count or an address that
            depends on a symbolic (data) value is refused (ExecError).

Calling convention modelled: arguments on the stack, 4(%sp) = state pointer,
8(%sp) = first_round promoted to a 32-bit int by the caller (after `link` these are
8(%fp) and 12(%fp)).  Memory is big-endian and every access of the file is a 32-bit
access, so the layout of the state object is "sliced32-be".
"""
import re

from x86_64 import ExecError, Sym, Ptr, Poison, preprocess  # noqa: F401  (preprocess re-exported)

LAYOUT = "sliced32-be"
TARGET_DEFINES = {
    # gcc -E runs on an x86-64 host: remove the host's macros, add the target's
    "ascon-asm-m68k.S": ["-D__m68k__", "-U__x86_64__", "-U__x86_64"],
}

MASK32 = 0xffffffff
DREGS = ["d%d" % i for i in range(8)]
AREGS = ["a%d" % i for i in range(8)]
ALIAS = {"fp": "a6", "sp": "a7"}
CALLEE_SAVED = ["d2", "d3", "d4", "d5", "d6", "d7", "a2", "a3", "a4", "a5", "a6"]
ARG_BYTES = 8          # two 32-bit argument slots above the return address


def s32(x):
    x &= MASK32
    return x - (1 << 32) if x & 0x80000000 else x


class Program:
    def __init__(self, text):
        self.ins = []        # (mnemonic, [operands], source line)
        self.labels = {}
        for raw in text.splitlines():
            line = raw.split("|")[0].strip()
            if not line or line.startswith("#"):
                continue
            m = re.match(r"^([.\w$]+):\s*(.*)$", line)
            if m:
                self.labels[m.group(1)] = len(self.ins)
                line = m.group(2).strip()
                if not line:
                    continue
            if line.startswith("."):
                continue         # directives: nothing in this file carries data
            parts = line.split(None, 1)
            ops = []
            if len(parts) > 1:
                ops = [o.strip() for o in re.split(r",(?![^()]*\))", parts[1])]
            self.ins.append((parts[0].lower(), ops, raw.strip()))


class Machine:
    def __init__(self, prog, fname, out_name, regions, stack_args, max_steps=200000):
        """regions: name -> size in bytes; stack_args: list of 32-bit argument values (int or Ptr)
        in push order of the C prototype (first argument at 4(%sp))."""
        self.p = prog
        self.fname = fname
        self.out_name = out_name
        self.out = []
        self.ntmp = 0
        self.regions = dict(regions)
        self.mem = {}                 # (region, off) -> value   (all cells are 32-bit)
        self.reg = {}
        for r in DREGS + AREGS:
            self.reg[r] = Sym("entry_" + r)
        self.reg["a7"] = Ptr("stack", 0)        # points at the return address slot
        if 4 * len(stack_args) != ARG_BYTES:
            raise ExecError("expected %d argument words" % (ARG_BYTES // 4))
        for i, v in enumerate(stack_args):
            self.mem[("stack", 4 + 4 * i)] = v
        self.flags = None             # None: unknown / data dependent; else (a, b) meaning the flags of b - a
        self.min_sp = 0
        self.max_steps = max_steps
        self.inputs = []
        self.stores = {}
        self.report = {"loads": 0, "stores": 0, "max_frame": 0, "steps": 0}

    # ---- helpers
    def tmp(self, expr):
        n = "t%d" % self.ntmp
        self.ntmp += 1
        self.out.append("    uint32_t %s = %s;" % (n, expr))
        return Sym(n)

    def cexpr(self, v):
        if isinstance(v, int):
            return "UINT32_C(0x%x)" % (v & MASK32)
        if isinstance(v, Sym):
            if v.e.startswith("entry_"):
                raise ExecError("register value undefined at entry (%s) used as data" % v.e)
            return v.e
        raise ExecError("value of kind %s used as data" % type(v).__name__)

    def regname(self, op):
        if not op.startswith("%"):
            return None
        n = op[1:].lower()
        n = ALIAS.get(n, n)
        if n not in self.reg:
            raise ExecError("unknown register " + op)
        return n

    def parse_imm(self, s):
        try:
            return int(s.strip(), 0) & MASK32
        except ValueError:
            raise ExecError("immediate is not a literal: " + s)

    def addr(self, op):
        m = re.match(r"^(-?\w*)\((%\w+)\)$", op)
        if not m:
            raise ExecError("unmodelled addressing mode " + op)
        disp, base = m.groups()
        b = self.reg[self.regname(base)]
        if self.regname(base) not in AREGS:
            raise ExecError("base register of %s is not an address register" % op)
        try:
            d = int(disp, 0) if disp else 0
        except ValueError:
            raise ExecError("displacement is not a literal: " + op)
        if not -32768 <= d <= 32767:
            raise ExecError("displacement out of the 16-bit range: " + op)
        if not isinstance(b, Ptr):
            raise ExecError("base of %s is not a pointer (kind %s): address depends on data or is wild" % (op, type(b).__name__))
        return Ptr(b.region, b.off + d)

    def check_access(self, a, write):
        if a.off % 2:
            raise ExecError("odd address for a 32-bit access (address error on 68000)")
        if a.region == "stack":
            if a.off >= 0:
                if not write and 4 <= a.off and a.off + 4 <= 4 + ARG_BYTES:
                    return                      # incoming argument slot
                raise ExecError("%s at or above the return address slot (stack+%d)" % ("store" if write else "load", a.off))
            sp = self.reg["a7"]
            if not isinstance(sp, Ptr) or sp.region != "stack":
                raise ExecError("stack pointer is not a stack address")
            if a.off < sp.off:
                raise ExecError("%s below the stack pointer (stack%d, sp=stack%d)" % ("store" if write else "load", a.off, sp.off))
            return
        if a.region not in self.regions:
            raise ExecError("access to unknown region " + a.region)
        if a.off < 0 or a.off + 4 > self.regions[a.region]:
            raise ExecError("%s outside object '%s' (offset %d size 4, object size %d)" %
                            ("store" if write else "load", a.region, a.off, self.regions[a.region]))

    def load(self, a):
        self.check_access(a, False)
        self.report["loads"] += 1
        key = (a.region, a.off)
        if key in self.mem:
            return self.mem[key]
        for (r, o) in self.mem:
            if r == a.region and o < a.off + 4 and a.off < o + 4:
                raise ExecError("load overlapping a cell of different alignment at %s+%d" % key)
        if a.region == "stack":
            raise ExecError("load of uninitialised stack slot stack%d" % a.off)
        cn = "in_%s_%d" % (a.region, a.off)
        self.inputs.append((a.region, a.off, cn))
        v = Sym(cn)
        self.mem[key] = v
        return v

    def store(self, a, v):
        self.check_access(a, True)
        self.report["stores"] += 1
        for (r, o) in self.mem:
            if r == a.region and o != a.off and o < a.off + 4 and a.off < o + 4:
                raise ExecError("store overlapping a cell of different alignment at %s+%d" % (a.region, a.off))
        if a.region != "stack":
            if isinstance(v, Ptr):
                raise ExecError("pointer stored into object '%s'" % a.region)
            self.cexpr(v)             # refuses undefined entry values / poison
            self.stores[(a.region, a.off)] = 4
        self.mem[(a.region, a.off)] = v

    def read(self, op):
        if op.startswith("#"):
            return self.parse_imm(op[1:])
        r = self.regname(op)
        if r:
            return self.reg[r]
        return self.load(self.addr(op))

    def write(self, op, v):
        r = self.regname(op)
        if r:
            if r == "a7":
                self.set_sp(v)
            else:
                self.reg[r] = v
            return
        if op.startswith("#"):
            raise ExecError("immediate as destination")
        self.store(self.addr(op), v)

    def set_sp(self, v):
        if not isinstance(v, Ptr) or v.region != "stack":
            raise ExecError("stack pointer set to a non-stack value")
        if v.off % 2:
            raise ExecError("odd stack pointer")
        if v.off > 4:
            raise ExecError("stack pointer moved above the caller's frame")
        self.reg["a7"] = v
        self.min_sp = min(self.min_sp, v.off)
        # cells below the new stack pointer are dead
        for k in [k for k in self.mem if k[0] == "stack" and k[1] < v.off]:
            del self.mem[k]

    def set_flags_from(self, v):
        """N,Z from the value, V=C=0: the flags of (v - 0)"""
        self.flags = (0, v & MASK32) if isinstance(v, int) else None

    def is_dreg(self, op):
        return self.regname(op) in DREGS

    def is_areg(self, op):
        return self.regname(op) in AREGS

    # ---- main loop
    def run(self):
        if self.fname not in self.p.labels:
            raise ExecError("function %s not found" % self.fname)
        pc = self.p.labels[self.fname]
        steps = 0
        while True:
            steps += 1
            if steps > self.max_steps:
                raise ExecError("step limit")
            if pc >= len(self.p.ins):
                raise ExecError("fell off the end of the text")
            mn, ops, src = self.p.ins[pc]
            try:
                r = self.step(mn, ops)
            except ExecError as e:
                raise ExecError("%s  [at `%s`]" % (e, src))
            if r == "ret":
                break
            pc = r if isinstance(r, int) else pc + 1
        self.report["steps"] = steps
        self.report["max_frame"] = -self.min_sp
        return self.finish()

    def label(self, op):
        if op not in self.p.labels:
            raise ExecError("jump to unknown label " + op)
        return self.p.labels[op]

    def cond(self, cc):
        if self.flags is None:
            raise ExecError("conditional branch on flags that depend on data (or are unset)")
        a, b = self.flags             # flags of b - a
        table = {"eq": a == b, "ne": a != b,
                 "lt": s32(b) < s32(a), "ge": s32(b) >= s32(a), "gt": s32(b) > s32(a), "le": s32(b) <= s32(a),
                 "hi": b > a, "ls": b <= a, "cc": b >= a, "hs": b >= a, "cs": b < a, "lo": b < a,
                 "mi": ((b - a) & 0x80000000) != 0, "pl": ((b - a) & 0x80000000) == 0}
        if cc not in table:
            raise ExecError("unmodelled condition code " + cc)
        return table[cc]

    def step(self, mn, ops):
        # --- control flow
        if mn == "rts":
            sp = self.reg["a7"]
            if not isinstance(sp, Ptr) or sp.region != "stack" or sp.off != 0:
                raise ExecError("ABI: stack pointer at return differs from its entry value")
            for r in CALLEE_SAVED:
                v = self.reg[r]
                if not (isinstance(v, Sym) and v.e == "entry_" + r):
                    raise ExecError("ABI: callee-saved register %%%s not restored at return" % r)
            return "ret"
        if mn in ("jmp", "jra", "bra", "jbra", "bra.s", "bra.w"):
            return self.label(ops[0])
        m = re.match(r"^j?b?(eq|ne|lt|ge|gt|le|hi|ls|cc|hs|cs|lo|mi|pl)(\.[swl])?$", mn)
        if m and mn[0] in "jb" and len(ops) == 1 and not ops[0].startswith(("%", "#")):
            tgt = self.label(ops[0])
            return tgt if self.cond(m.group(1)) else None
        if mn in ("link.w", "link.l", "link"):
            r = self.regname(ops[0])
            if r not in AREGS or r == "a7" or not ops[1].startswith("#"):
                raise ExecError("bad link operands")
            d = s32(self.parse_imm(ops[1][1:]))
            if mn != "link.l" and not -32768 <= d <= 32767:
                raise ExecError("link.w displacement out of range")
            if d > 0:
                raise ExecError("link with a positive displacement")
            sp = self.reg["a7"]
            nsp = Ptr("stack", sp.off - 4)
            self.set_sp(nsp)
            self.store(nsp, self.reg[r])
            self.reg[r] = nsp
            self.set_sp(Ptr("stack", nsp.off + d))
            return None
        if mn == "unlk":
            r = self.regname(ops[0])
            if r not in AREGS or r == "a7":
                raise ExecError("bad unlk operand")
            v = self.reg[r]
            if not isinstance(v, Ptr) or v.region != "stack" or v.off >= 0:
                raise ExecError("unlk with a frame pointer that is not inside the own frame")
            # sp <- An ; An <- (sp)+   (read the saved value before the cells die)
            key = ("stack", v.off)
            if key not in self.mem:
                raise ExecError("unlk pops an uninitialised stack slot")
            saved = self.mem[key]
            self.report["loads"] += 1
            self.set_sp(Ptr("stack", v.off + 4))
            self.reg[r] = saved
            return None
        # --- data movement
        if mn in ("move.l", "movea.l"):
            v = self.read(ops[0])
            dst_a = self.is_areg(ops[1])
            if mn == "movea.l" and not dst_a:
                raise ExecError("movea to a non-address register")
            self.write(ops[1], v)
            if not dst_a:
                self.set_flags_from(v)      # movea / move to An leave the flags alone
            return None
        if mn in ("moveq.l", "moveq"):
            if not ops[0].startswith("#") or not self.is_dreg(ops[1]):
                raise ExecError("bad moveq operands")
            v = s32(self.parse_imm(ops[0][1:]))
            if not -128 <= v <= 127:
                raise ExecError("moveq immediate out of range")
            self.write(ops[1], v & MASK32)
            self.set_flags_from(v & MASK32)
            return None
        if mn == "lea":
            if not self.is_areg(ops[1]):
                raise ExecError("lea to a non-address register")
            self.write(ops[1], self.addr(ops[0]))
            return None
        # --- logic
        if mn in ("eor.l", "eori.l", "and.l", "andi.l", "or.l", "ori.l"):
            base = mn.split(".")[0].rstrip("i")
            if base == "eor":
                # eor: source must be a data register or an immediate; destination not an address register
                if not (ops[0].startswith("#") or self.is_dreg(ops[0])):
                    raise ExecError("eor source must be a data register or an immediate")
            elif not (ops[0].startswith("#") or self.is_dreg(ops[0]) or self.is_dreg(ops[1])):
                raise ExecError("and/or need a data register operand")
            if self.is_areg(ops[0]) or self.is_areg(ops[1]):
                raise ExecError("logic operation on an address register")
            a = self.read(ops[0])
            b = self.read(ops[1])
            cop = {"eor": "^", "and": "&", "or": "|"}[base]
            if isinstance(a, int) and isinstance(b, int):
                r = {"^": a ^ b, "&": a & b, "|": a | b}[cop] & MASK32
            else:
                r = self.tmp("%s %s %s" % (self.cexpr(b), cop, self.cexpr(a)))
            self.write(ops[1], r)
            self.set_flags_from(r)
            return None
        if mn == "not.l":
            if self.is_areg(ops[0]):
                raise ExecError("not on an address register")
            v = self.read(ops[0])
            r = (~v) & MASK32 if isinstance(v, int) else self.tmp("~%s" % self.cexpr(v))
            self.write(ops[0], r)
            self.set_flags_from(r)
            return None
        if mn in ("ror.l", "rol.l", "lsl.l", "lsr.l"):
            if len(ops) == 1:
                raise ExecError("memory shifts are not modelled")
            if not self.is_dreg(ops[1]):
                raise ExecError("rotate/shift destination must be a data register")
            if ops[0].startswith("#"):
                n = self.parse_imm(ops[0][1:])
                if not 1 <= n <= 8:
                    raise ExecError("immediate rotate/shift count must be 1..8")
            else:
                if not self.is_dreg(ops[0]):
                    raise ExecError("rotate/shift count must be an immediate or a data register")
                n = self.read(ops[0])
                if not isinstance(n, int):
                    raise ExecError("rotate/shift amount depends on data")
                n &= 63
            v = self.read(ops[1])
            kind = mn[:3]
            if kind in ("lsl", "lsr") and n >= 32:
                r = 0
                self.cexpr(v)
            elif isinstance(v, int):
                k = n % 32
                if kind == "ror": r = ((v >> k) | (v << (32 - k))) & MASK32
                elif kind == "rol": r = ((v << k) | (v >> (32 - k))) & MASK32
                elif kind == "lsl": r = (v << n) & MASK32
                else: r = v >> n
            else:
                e = self.cexpr(v)
                k = n % 32
                if kind in ("ror", "rol") and k == 0: r = v
                elif kind in ("lsl", "lsr") and n == 0: r = v
                elif kind == "ror": r = self.tmp("(%s >> %d) | (%s << %d)" % (e, k, e, 32 - k))
                elif kind == "rol": r = self.tmp("(%s << %d) | (%s >> %d)" % (e, k, e, 32 - k))
                elif kind == "lsl": r = self.tmp("%s << %d" % (e, n))
                else: r = self.tmp("%s >> %d" % (e, n))
            self.write(ops[1], r)
            self.flags = None       # C/N/Z depend on the rotated data: any later conditional branch is refused
            return None
        if mn in ("cmpi.l", "cmp.l"):
            a = self.read(ops[0])
            b = self.read(ops[1])
            if isinstance(a, int) and isinstance(b, int):
                self.flags = (a & MASK32, b & MASK32)
            else:
                self.flags = None     # data-dependent flags: any later conditional branch is refused
            return None
        if mn in ("tst.l",):
            self.set_flags_from(self.read(ops[0]))
            return None
        if mn in ("add.l", "sub.l", "addq.l", "subq.l", "addi.l", "subi.l", "adda.l", "suba.l", "addq", "subq"):
            a = self.read(ops[0])
            b = self.read(ops[1])
            sub = mn.startswith("sub")
            if isinstance(a, int) and isinstance(b, int):
                r = (b - a if sub else b + a) & MASK32
            elif isinstance(b, Ptr) and isinstance(a, int):
                r = Ptr(b.region, b.off - s32(a) if sub else b.off + s32(a))
            else:
                r = self.tmp("%s %s %s" % (self.cexpr(b), "-" if sub else "+", self.cexpr(a)))
            self.write(ops[1], r)
            if not self.is_areg(ops[1]):
                self.flags = (a, b) if sub and isinstance(a, int) and isinstance(b, int) else None
            return None
        if mn == "nop":
            return None
        raise ExecError("unmodelled instruction " + mn)

    def finish(self):
        lines = []
        regs = sorted(self.regions)
        lines.append("static void %s(%s)" % (self.out_name, ", ".join("uint8_t *%s" % r for r in regs) or "void"))
        lines.append("{")
        for region, off, cn in self.inputs:
            lines.append("    uint32_t %s = VLD32BE(%s + %d);" % (cn, region, off))
        lines += self.out
        for (region, off) in sorted(self.stores):
            lines.append("    VST32BE(%s + %d, %s);" % (region, off, self.cexpr(self.mem[(region, off)])))
        lines.append("}")
        return "\n".join(lines)


PRELUDE = """#include <stdint.h>
#include <string.h>
#ifndef VERIF_ASM_M68K_PRELUDE
#define VERIF_ASM_M68K_PRELUDE
static inline uint32_t VLD32BE(const uint8_t *p) { return ((uint32_t)p[0] << 24) | ((uint32_t)p[1] << 16) | ((uint32_t)p[2] << 8) | (uint32_t)p[3]; }
static inline void VST32BE(uint8_t *p, uint32_t v) { p[0] = (uint8_t)(v >> 24); p[1] = (uint8_t)(v >> 16); p[2] = (uint8_t)(v >> 8); p[3] = (uint8_t)v; }
#endif
"""


def translate(asm_text, fname, first_round, out_name):
    """common executor interface (see validate.py): ascon_permute(state, first_round), arguments on the stack"""
    prog = Program(asm_text)
    m = Machine(prog, fname, out_name, {"state": 40}, [Ptr("state", 0), first_round & MASK32])
    body = m.run()
    return PRELUDE + body, dict(m.report, inputs=len(m.inputs), written=sorted(o for (_, o) in m.stores))


def translate_free(asm_text, fname, out_name):
    """ascon_backend_free(state) if the file defines it (one stack argument; the second slot is unused)"""
    prog = Program(asm_text)
    m = Machine(prog, fname, out_name, {"state": 40}, [Ptr("state", 0), Poison("no second argument")])
    body = m.run()
    return PRELUDE + body, dict(m.report, inputs=len(m.inputs), written=sorted(o for (_, o) in m.stores))
