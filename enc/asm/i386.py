"""Partial-evaluating symbolic executor for the 32-bit x86 (i386, AT&T syntax, cdecl)
assembly file of ascon-suite: /repo/src/core/ascon-asm-i386.S  (DESIGN 3 C18).

Same method as x86_64.py: control flow and addresses are evaluated concretely from
the public argument first_round; data stays symbolic and is emitted as straight-line
SSA C over uint32_t (all results wrap to 32 bits, rotates are 32-bit).

Machine model at entry (System V i386 / cdecl):
    %esp -> stack+0 : return address (4 bytes, never read or written by the callee)
            stack+4 : argument 1 = pointer to the 40-byte state object
            stack+8 : argument 2 = first_round (concrete)
    %ebx %esi %edi %ebp : callee-saved, hold opaque entry tokens
    %eax %ecx %edx      : caller-saved, undefined (reading them as data is refused)

Enforced on the path followed (ExecError otherwise):
  * ABI       : at `ret` %esp equals its entry value (plain `ret`, caller pops the
                arguments) and ebx, esi, edi, ebp hold their entry tokens;
  * footprint : every load/store hits the state object (inside its 40 bytes), the
                function's own frame (between the current %esp and the return address
                slot; i386 has no red zone) or -- loads only -- the two argument slots;
  * secret independence : conditional jumps need flags from a compare of concrete
                values, shift/rotate counts and address components must be concrete;
  * every instruction outside the modelled subset is refused.
"""
import re

from x86_64 import ExecError, Sym, Ptr, Poison, Program, preprocess  # noqa: F401  (preprocess re-exported)

LAYOUT = "sliced32"
TARGET_DEFINES = {
    # the file is pre-processed on an x86-64 host: hide the host macros, define the target's
    "ascon-asm-i386.S": ["-D__i386__", "-D__i386", "-U__x86_64__", "-U__x86_64"],
}

MASK32 = 0xffffffff
REGS = ["eax", "ebx", "ecx", "edx", "esi", "edi", "ebp", "esp"]
CALLEE_SAVED = ["ebx", "esi", "edi", "ebp"]
CALLER_SAVED = ["eax", "ecx", "edx"]
SUBREGS = set("ax bx cx dx si di bp sp al bl cl dl ah bh ch dh".split())
ARG_BYTES = 8            # two 4-byte arguments above the return address
RET_SLOT = 4             # size of the return address slot at stack+0

JCC = ("jl", "jg", "jge", "jle", "je", "jne", "jz", "jnz", "jb", "jae", "ja", "jbe", "jnae", "jnb", "jc", "jnc")


class Entry:
    """opaque value a callee-saved register holds at entry; may be moved/pushed/popped, not computed with"""
    __slots__ = ("reg",)

    def __init__(self, reg):
        self.reg = reg


def _s32(x):
    return x - (1 << 32) if x & 0x80000000 else x


class Machine32:
    def __init__(self, prog, fname, out_name, state_size, first_round, max_steps=200000):
        self.p = prog
        self.fname = fname
        self.out_name = out_name
        self.regions = {"state": state_size}
        self.out = []
        self.ntmp = 0
        self.reg = {}
        for r in CALLER_SAVED:
            self.reg[r] = Poison("%%%s is undefined at function entry" % r)
        for r in CALLEE_SAVED:
            self.reg[r] = Entry(r)
        self.reg["esp"] = Ptr("stack", 0)
        # memory: (region, off) -> value ; every cell is 4 bytes wide and 4-byte aligned w.r.t. its region
        self.mem = {("stack", RET_SLOT): Ptr("state", 0), ("stack", RET_SLOT + 4): first_round & MASK32}
        self.flags = None        # (a, b) of the last `cmp a,b` on concrete values, else None
        self.flags_why = "flags were never set"
        self.min_sp = 0
        self.inputs = []         # (off, cname) of state words read before being written
        self.stores = set()      # state offsets written
        self.max_steps = max_steps
        self.pc = 0
        self.report = {"loads": 0, "stores": 0, "max_frame": 0, "steps": 0,
                       "state_loads": 0, "state_stores": 0, "arg_loads": 0}

    # ---- values
    def tmp(self, expr):
        n = "t%d" % self.ntmp
        self.ntmp += 1
        self.out.append("    uint32_t %s = %s;" % (n, expr))
        return Sym(n)

    def cexpr(self, v):
        if isinstance(v, int):
            return "UINT32_C(0x%x)" % (v & MASK32)
        if isinstance(v, Sym):
            return v.e
        why = ""
        if isinstance(v, Poison):
            why = ": " + v.why
        elif isinstance(v, Entry):
            why = ": entry value of callee-saved %" + v.reg
        elif isinstance(v, Ptr):
            why = ": pointer %s%+d" % (v.region, v.off)
        raise ExecError("value of kind %s used as data%s" % (type(v).__name__, why))

    def parse_imm(self, s):
        try:
            return int(s.strip(), 0) & MASK32
        except ValueError:
            raise ExecError("immediate is not a literal: " + s)

    def regname(self, op):
        name = op.strip().lstrip("%")
        if name in self.reg:
            return name
        if name in SUBREGS:
            raise ExecError("8/16-bit sub-register %%%s is not modelled" % name)
        raise ExecError("unknown register " + op)

    # ---- memory
    def addr(self, op):
        m = re.match(r"^([^()]*)\((%\w+)?(?:,(%\w+)(?:,(\d+))?)?\)$", op.strip())
        if not m:
            raise ExecError("bad or absolute memory operand " + op)
        disp, base, idx, scale = m.groups()
        try:
            d = int(disp, 0) if disp.strip() else 0
        except ValueError:
            raise ExecError("symbolic displacement in " + op)
        if not base:
            raise ExecError("memory operand without base register: " + op)
        b = self.reg[self.regname(base)]
        if idx:
            iv = self.reg[self.regname(idx)]
            if not isinstance(iv, int):
                raise ExecError("index register %s is not a concrete value (address would depend on data): %s" % (idx, op))
            d += _s32(iv) * int(scale or 1)
        if isinstance(b, Ptr):
            return Ptr(b.region, b.off + d)
        raise ExecError("base of %s is not a pointer (kind %s): address depends on data or is wild" % (op, type(b).__name__))

    def check_access(self, a, size, write):
        what = "store" if write else "load"
        if size != 4:
            raise ExecError("%d-byte memory access is not modelled" % size)
        if a.region == "stack":
            sp = self.reg["esp"]
            if not isinstance(sp, Ptr) or sp.region != "stack":
                raise ExecError("stack pointer is not a stack address")
            if a.off % 4:
                raise ExecError("misaligned stack %s at stack%+d" % (what, a.off))
            if a.off >= 0:
                if write:
                    raise ExecError("store at or above the return address slot (stack%+d)" % a.off)
                if a.off < RET_SLOT:
                    raise ExecError("load of the return address slot")
                if a.off + size > RET_SLOT + ARG_BYTES:
                    raise ExecError("load above the argument area (stack%+d): outside the function's frame" % a.off)
                return
            if a.off < sp.off:
                raise ExecError("%s below the stack pointer (stack%+d, %%esp=stack%+d; no red zone on i386)" % (what, a.off, sp.off))
            return
        if a.region not in self.regions:
            raise ExecError("access to unknown region " + a.region)
        if a.off < 0 or a.off + size > self.regions[a.region]:
            raise ExecError("%s outside object '%s' (offset %d size %d, object size %d)" %
                            (what, a.region, a.off, size, self.regions[a.region]))
        if a.off % 4:
            raise ExecError("misaligned %s in object '%s' at offset %d (cells are 32-bit words)" % (what, a.region, a.off))

    def load(self, a, size):
        self.check_access(a, size, False)
        self.report["loads"] += 1
        key = (a.region, a.off)
        if a.region == "stack":
            if a.off >= 0:
                self.report["arg_loads"] += 1
            if key not in self.mem:
                raise ExecError("load of uninitialised stack slot stack%+d" % a.off)
            return self.mem[key]
        self.report["state_loads"] += 1
        if key not in self.mem:
            cn = "in_%s_%d" % (a.region, a.off)
            self.inputs.append((a.off, cn))
            self.mem[key] = Sym(cn)
        return self.mem[key]

    def store(self, a, size, v):
        self.check_access(a, size, True)
        self.report["stores"] += 1
        if a.region != "stack":
            self.cexpr(v)            # only data may be written into the state object
            self.stores.add(a.off)
            self.report["state_stores"] += 1
        self.mem[(a.region, a.off)] = v

    def set_sp(self, v):
        if not isinstance(v, Ptr) or v.region != "stack":
            raise ExecError("stack pointer set to a non-stack value")
        if v.off % 4:
            raise ExecError("stack pointer misaligned")
        if v.off > 0:
            raise ExecError("stack pointer moved above its entry value")
        old = self.reg["esp"]
        self.reg["esp"] = v
        self.min_sp = min(self.min_sp, v.off)
        if isinstance(old, Ptr) and v.off > old.off:
            # released slots are dead: forget them so a later read is an uninitialised-slot error
            for (r, o) in [k for k in self.mem if k[0] == "stack" and k[1] < v.off]:
                del self.mem[(r, o)]

    # ---- operands
    def operand_read(self, op, size=4):
        op = op.strip()
        if op.startswith("$"):
            return self.parse_imm(op[1:])
        if op.startswith("%"):
            return self.reg[self.regname(op)]
        return self.load(self.addr(op), size)

    def operand_write(self, op, v, size=4):
        op = op.strip()
        if op.startswith("$"):
            raise ExecError("immediate as destination")
        if op.startswith("%"):
            name = self.regname(op)
            if isinstance(v, int):
                v &= MASK32
            if name == "esp":
                self.set_sp(v)
            else:
                self.reg[name] = v
            return
        self.store(self.addr(op), size, v)

    def binop(self, cop, a, b):
        """AT&T `op a,b` : result = b OP a, wrapped to 32 bits"""
        if isinstance(a, int) and isinstance(b, int):
            r = {"^": a ^ b, "&": a & b, "|": a | b, "+": a + b, "-": b - a}[cop]
            return r & MASK32
        if isinstance(b, Ptr) and isinstance(a, int) and cop in "+-":
            d = _s32(a)
            return Ptr(b.region, b.off + d if cop == "+" else b.off - d)
        ea, eb = self.cexpr(a), self.cexpr(b)
        return self.tmp("%s %s %s" % (eb, cop, ea))

    # ---- main loop
    def run(self):
        if self.fname not in self.p.labels:
            raise ExecError("function %s not found" % self.fname)
        pc = self.p.labels[self.fname]
        steps = 0
        while True:
            steps += 1
            if steps > self.max_steps:
                raise ExecError("step limit")
            if pc >= len(self.p.ins):
                raise ExecError("fell off the end of the text")
            mn, ops, src = self.p.ins[pc]
            self.pc = pc
            try:
                r = self.step(mn, ops)
            except ExecError as e:
                raise ExecError("%s  [at `%s`, first instruction index %d]" % (e, src, pc))
            if r == "ret":
                break
            pc = r if isinstance(r, int) else pc + 1
        self.report["steps"] = steps
        self.report["max_frame"] = -self.min_sp
        return self.finish()

    def jump_target(self, op):
        name = op.strip()
        if name.startswith("*"):
            raise ExecError("indirect jump is not modelled")
        if name not in self.p.labels:
            raise ExecError("jump to unknown label " + name)
        return self.p.labels[name]

    def step(self, mn, ops):
        if mn in ("ret", "retl"):
            if ops:
                raise ExecError("ABI: `ret $n` pops the arguments, cdecl requires the caller to do so")
            sp = self.reg["esp"]
            if not isinstance(sp, Ptr) or sp.region != "stack" or sp.off != 0:
                raise ExecError("ABI: stack pointer at return differs from its entry value")
            for r in CALLEE_SAVED:
                v = self.reg[r]
                if not (isinstance(v, Entry) and v.reg == r):
                    raise ExecError("ABI: callee-saved register %%%s not restored at return" % r)
            return "ret"
        if mn in ("pushl", "push"):
            v = self.operand_read(ops[0])
            sp = self.reg["esp"]
            self.set_sp(Ptr("stack", sp.off - 4))
            self.store(Ptr("stack", sp.off - 4), 4, v)
            return None
        if mn in ("popl", "pop"):
            sp = self.reg["esp"]
            if sp.off >= 0:
                raise ExecError("pop of the return address or beyond")
            v = self.load(Ptr("stack", sp.off), 4)
            self.set_sp(Ptr("stack", sp.off + 4))
            self.operand_write(ops[0], v)
            return None
        if mn == "jmp":
            return self.jump_target(ops[0])
        if mn in JCC:
            if self.flags is None:
                raise ExecError("conditional jump on flags that depend on data or are undefined (%s)" % self.flags_why)
            a, b = self.flags            # cmp a,b : flags of b - a
            cond = {"jl": _s32(b) < _s32(a), "jg": _s32(b) > _s32(a), "jge": _s32(b) >= _s32(a), "jle": _s32(b) <= _s32(a),
                    "je": a == b, "jz": a == b, "jne": a != b, "jnz": a != b,
                    "jb": b < a, "jnae": b < a, "jc": b < a, "jae": b >= a, "jnb": b >= a, "jnc": b >= a,
                    "ja": b > a, "jbe": b <= a}[mn]
            tgt = self.jump_target(ops[0])
            return tgt if cond else None
        if not mn.endswith("l"):
            raise ExecError("unmodelled instruction %s (only 32-bit `l` forms are modelled)" % mn)
        base = mn[:-1]
        if base == "mov":
            self.operand_write(ops[1], self.operand_read(ops[0]))
            return None                   # mov leaves the flags alone
        if base == "lea":
            if not ops[1].strip().startswith("%"):
                raise ExecError("lea needs a register destination")
            self.operand_write(ops[1], self.addr(ops[0]))
            return None
        if base in ("xor", "and", "or", "add", "sub"):
            cop = {"xor": "^", "and": "&", "or": "|", "add": "+", "sub": "-"}[base]
            a = self.operand_read(ops[0])
            if base == "xor" and ops[0].strip() == ops[1].strip() and ops[0].strip().startswith("%"):
                r = 0                     # zeroing idiom: defined whatever the register held
            else:
                b = self.operand_read(ops[1])
                r = self.binop(cop, a, b)
            self.operand_write(ops[1], r)
            self.flags, self.flags_why = None, "last set by `%s`, not by a compare of public values" % mn
            return None
        if base == "not":
            v = self.operand_read(ops[0])
            r = (~v) & MASK32 if isinstance(v, int) else self.tmp("~%s" % self.cexpr(v))
            self.operand_write(ops[0], r)
            return None                   # not leaves the flags alone
        if base in ("ror", "rol", "shl", "shr", "sal"):
            if len(ops) == 1:
                n, dst = 1, ops[0]
            else:
                cnt, dst = ops[0].strip(), ops[1]
                if cnt.startswith("$"):
                    n = self.parse_imm(cnt[1:])
                elif cnt == "%cl":
                    n = self.reg["ecx"]
                    if not isinstance(n, int):
                        raise ExecError("shift/rotate amount in %cl depends on data or is undefined")
                else:
                    raise ExecError("bad shift count operand " + cnt)
            n &= 31
            v = self.operand_read(dst)
            if n == 0:
                r = v
            elif isinstance(v, int):
                r = {"ror": (v >> n) | (v << (32 - n)), "rol": (v << n) | (v >> (32 - n)),
                     "shl": v << n, "sal": v << n, "shr": v >> n}[base] & MASK32
            else:
                e = self.cexpr(v)
                r = self.tmp({"ror": "(%s >> %d) | (%s << %d)" % (e, n, e, 32 - n),
                              "rol": "(%s << %d) | (%s >> %d)" % (e, n, e, 32 - n),
                              "shl": "%s << %d" % (e, n), "sal": "%s << %d" % (e, n),
                              "shr": "%s >> %d" % (e, n)}[base])
            self.operand_write(dst, r)
            self.flags, self.flags_why = None, "last set by `%s`" % mn
            return None
        if base == "cmp":
            a = self.operand_read(ops[0])
            b = self.operand_read(ops[1])
            if isinstance(a, int) and isinstance(b, int):
                self.flags = (a & MASK32, b & MASK32)
            else:
                self.flags = None         # any later conditional jump is refused
                self.flags_why = "compare of non-public values (%s, %s)" % (type(a).__name__, type(b).__name__)
            return None
        raise ExecError("unmodelled instruction " + mn)

    def finish(self):
        lines = ["static void %s(uint8_t *state)" % self.out_name, "{"]
        for off, cn in self.inputs:
            lines.append("    uint32_t %s = I386_LD32(state + %d);" % (cn, off))
        lines += self.out
        for off in sorted(self.stores):
            lines.append("    I386_ST32(state + %d, %s);" % (off, self.cexpr(self.mem[("state", off)])))
        lines.append("}")
        return "\n".join(lines)


PRELUDE = """#include <stdint.h>
#include <string.h>
#ifndef VERIF_ASM_I386_PRELUDE
#define VERIF_ASM_I386_PRELUDE
/* little-endian 32-bit memory accesses of the i386, written endian-neutrally */
static inline uint32_t I386_LD32(const uint8_t *p) { return (uint32_t)p[0] | ((uint32_t)p[1] << 8) | ((uint32_t)p[2] << 16) | ((uint32_t)p[3] << 24); }
static inline void I386_ST32(uint8_t *p, uint32_t v) { p[0] = (uint8_t)v; p[1] = (uint8_t)(v >> 8); p[2] = (uint8_t)(v >> 16); p[3] = (uint8_t)(v >> 24); }
#endif
"""


def translate(asm_text, fname, first_round, out_name, state_size=40):
    """common executor interface (see validate.py): cdecl, state pointer at 4(%esp), first_round at 8(%esp)"""
    prog = Program(asm_text)
    m = Machine32(prog, fname, out_name, state_size, first_round)
    body = m.run()
    rep = dict(m.report, inputs=len(m.inputs), written=sorted(m.stores))
    return PRELUDE + body + "\n", rep


def _selftest(path="/repo/src/core/ascon-asm-i386.S"):
    """negative tests: each mutation of the real file must be refused with the expected diagnostic"""
    text = preprocess(path, ["/repo/src", "/repo/src/core"], TARGET_DEFINES["ascon-asm-i386.S"])
    translate(text, "ascon_permute", 0, "f")           # the original is accepted
    muts = [
        ("callee-saved not restored", lambda t: t.replace(" popl %ebx\n", " popl %ecx\n", 1), "callee-saved"),
        ("stack pointer not restored", lambda t: t.replace(" addl $48, %esp", " addl $44, %esp", 1), None),
        ("ret $8 (stdcall)", lambda t: t.replace(" ret\n", " ret $8\n", 1), "cdecl"),
        ("store past the state", lambda t: t.replace(" movl %edi, 36(%eax)", " movl %edi, 40(%eax)", 1), "outside object"),
        ("load before the state", lambda t: t.replace(" movl 4(%eax), %ebx", " movl -4(%eax), %ebx", 1), "outside object"),
        ("store below %esp", lambda t: t.replace(" movl %ebx, 4(%esp)", " movl %ebx, -4(%esp)", 1), "below the stack pointer"),
        ("overwrite return address", lambda t: t.replace(" movl %eax, (%esp)\n", " movl %eax, 64(%esp)\n", 1), "return address"),
        ("load beyond the arguments", lambda t: t.replace(" movl 72(%esp), %ebp", " movl 76(%esp), %ebp", 1), "argument area"),
        ("branch on data", lambda t: t.replace(" cmpl $6, %ebp", " cmpl $6, %ebx", 1), "conditional jump"),
        ("data-dependent address", lambda t: t.replace(".L12:\n movl 68(%esp), %eax", ".L12:\n movl %ebx, %eax", 1), "not a pointer"),
        ("data-dependent rotate count", lambda t: t.replace(" rorl $4, %eax", " rorl %cl, %eax", 1), "amount"),
        ("uninitialised stack read", lambda t: t.replace(" movl %ebx, 4(%esp)\n", "", 1), "uninitialised"),
        ("unmodelled instruction", lambda t: t.replace(" notl %edx\n", " bswapl %edx\n", 1), "unmodelled"),
        ("16-bit sub-register", lambda t: t.replace(" xorl %edi, %ebx", " xorw %di, %bx", 1), "unmodelled"),
    ]
    bad = 0
    for name, f, expect in muts:
        mt = f(text)
        if mt == text:
            print("selftest %-32s: MUTATION DID NOT APPLY" % name); bad += 1; continue
        msgs = []
        for r in (0, 12):
            try:
                translate(mt, "ascon_permute", r, "f")
                msgs.append(None)
            except ExecError as e:
                msgs.append(str(e))
        hit = [m for m in msgs if m is not None and (expect is None or expect in m)]
        print("selftest %-32s: %s" % (name, ("refused: " + hit[0][:110]) if hit else "NOT REFUSED %r" % msgs))
        bad += not hit
    return bad


if __name__ == "__main__":
    import sys
    sys.exit(1 if _selftest(*sys.argv[1:]) else 0)
