"""Partial-evaluating symbolic executor for the 32-bit ARM assembly files of ascon-suite
(ARM / Thumb-1 / Thumb-2, GNU unified syntax; DESIGN 3 C18):

    /repo/src/core/ascon-asm-armv6.S    (ARM state, ARMv6)
    /repo/src/core/ascon-asm-armv6m.S   (Thumb-1, ARMv6-M, jump table + `mov pc`)
    /repo/src/core/ascon-asm-armv7m.S   (Thumb-2, ARMv7-M)

Same scheme as x86_64.py: control flow and addresses are evaluated concretely from the public
argument first_round (r1); data stays symbolic and is emitted as straight-line SSA C over
uint32_t.  Enforced on the path that is followed (ExecError otherwise):
  * ABI (AAPCS32): at return sp equals its entry value, r4-r11 hold their entry values and the
    return goes to the entry value of lr (`bx lr`, `mov pc, lr` or `pop {..., pc}`);
  * footprint: every load/store is a naturally aligned word inside the 40-byte state object or
    inside the function's own frame [sp, entry sp) -- nothing at/above the entry sp, nothing
    below the current sp (no red zone in AAPCS32);
  * secret independence: a conditional branch on flags produced from data, an indirect branch
    through data, a register shift amount or an address component that is symbolic is refused;
  * every instruction that is not modelled is refused.
Registers never written by the function (r2, r3, ip at entry, and the entry values of r4-r11, lr)
are `Entry` tokens: they may be moved, pushed and popped, but not used as data.
"""
import os
import re

from x86_64 import ExecError, Sym, Ptr, Lbl, LblDiff, Poison
from x86_64 import preprocess as _cpp

LAYOUT = "sliced32"
M32 = 0xffffffff

_HOST_UNDEF = ["-U__x86_64__", "-U__x86_64"]
TARGET_DEFINES = {
    "ascon-asm-armv6.S": ["-D__ARM_ARCH=6"] + _HOST_UNDEF,
    "ascon-asm-armv6m.S": ["-D__ARM_ARCH=6", "-D__ARM_ARCH_6M__", "-D__ARM_ARCH_ISA_THUMB=1", "-D__thumb__"] + _HOST_UNDEF,
    "ascon-asm-armv7m.S": ["-D__ARM_ARCH=7", "-D__ARM_ARCH_ISA_THUMB=2", "-D__thumb__", "-D__thumb2__"] + _HOST_UNDEF,
}

REGS = ["r%d" % i for i in range(13)] + ["sp", "lr"]
ALIAS = {"r13": "sp", "r14": "lr", "r15": "pc", "sb": "r9", "sl": "r10", "fp": "r11", "ip": "r12",
         "a1": "r0", "a2": "r1", "a3": "r2", "a4": "r3", "v1": "r4", "v2": "r5", "v3": "r6", "v4": "r7",
         "v5": "r8", "v6": "r9", "v7": "r10", "v8": "r11"}
REGNUM = {r: i for i, r in enumerate(REGS)}
REGNUM["pc"] = 15
CALLEE_SAVED = ["r4", "r5", "r6", "r7", "r8", "r9", "r10", "r11"]
CONDS = ["eq", "ne", "cs", "hs", "cc", "lo", "mi", "pl", "vs", "vc", "hi", "ls", "ge", "lt", "gt", "le", "al"]
ALU = ["eor", "and", "orr", "bic", "orn", "add", "sub", "rsb", "mov", "mvn", "ror", "lsl", "lsr", "asr"]
SHIFTS = ("ror", "lsl", "lsr", "asr")


class Entry:
    """value a register had when the function was entered (opaque: not data, not an address)"""
    __slots__ = ("name",)

    def __init__(self, name):
        self.name = name


class CodeAddr:
    """a return address produced by bl (opaque code address)"""
    __slots__ = ("idx",)

    def __init__(self, idx):
        self.idx = idx


def preprocess(path, incdirs, defines):
    """gcc -E on the (x86-64) host with the target's predefined macros; if no defines are given the
    ones recorded in TARGET_DEFINES for that file are used."""
    defines = list(defines) or list(TARGET_DEFINES.get(os.path.basename(path), []))
    text = _cpp(path, incdirs, defines)
    if not re.search(r"^\s*\w+:", text, re.M):
        raise ExecError("pre-processing %s with %s selected no code (wrong ASCON_BACKEND_* branch?)" % (path, " ".join(defines)))
    return text


def _split_ops(s):
    ops, depth, cur = [], 0, ""
    for ch in s:
        if ch in "[{":
            depth += 1
        elif ch in "]}":
            depth -= 1
        if ch == "," and depth == 0:
            ops.append(cur.strip())
            cur = ""
        else:
            cur += ch
    if cur.strip():
        ops.append(cur.strip())
    return ops


class Program:
    """instructions, labels and in-line data words (jump tables live in .text here)"""

    def __init__(self, text):
        self.ins = []        # (mnemonic, [operands], source line, mode)
        self.labels = {}     # label -> instruction index
        self.data = {}       # label -> list of (size, expr)
        mode = "arm"
        cur = None           # label that owns directly following .word items
        for raw in text.splitlines():
            line = raw.split("@")[0].split("//")[0]
            for stmt in line.split(";"):
                stmt = stmt.strip()
                while True:
                    m = re.match(r"^([.\w$]+):\s*(.*)$", stmt)
                    if not m:
                        break
                    lab = m.group(1)
                    if lab in self.labels:
                        raise ExecError("label %s defined twice" % lab)
                    self.labels[lab] = len(self.ins)
                    self.data[lab] = []
                    cur = lab
                    stmt = m.group(2).strip()
                if not stmt:
                    continue
                parts = stmt.split(None, 1)
                head = parts[0].lower()
                rest = parts[1].strip() if len(parts) > 1 else ""
                if head.startswith("."):
                    if head in (".thumb", ".thumb_func"):
                        if head == ".thumb":
                            mode = "thumb"
                    elif head == ".arm":
                        mode = "arm"
                    elif head == ".code":
                        mode = "thumb" if rest.strip() == "16" else "arm"
                    elif head in (".word", ".long", ".4byte", ".int"):
                        for e in _split_ops(rest):
                            if cur is not None:
                                self.data[cur].append((4, e.replace(" ", "")))
                            # executing a data word is an error: keep a marker in the instruction stream
                            self.ins.append((".word", [e], raw.strip(), mode))
                    elif head in (".byte", ".hword", ".short", ".2byte", ".quad", ".8byte", ".ascii", ".asciz", ".string", ".space", ".skip", ".zero", ".fill"):
                        cur = None
                        self.ins.append((".word", [rest], raw.strip(), mode))
                    elif head in (".macro", ".rept", ".irp", ".if", ".ifdef", ".include", ".req", ".set", ".equ"):
                        raise ExecError("assembler directive %s is not modelled" % head)
                    # everything else (.text .align .global .type .size .syntax .arch .cpu .fpu .ltorg ...) has no effect here
                    continue
                cur = None
                mn = re.sub(r"\.(n|w)$", "", head)
                self.ins.append((mn, _split_ops(rest), raw.strip(), mode))


def _rotr(v, n):
    n %= 32
    return ((v >> n) | (v << (32 - n))) & M32 if n else v & M32


def _s32(v):
    return v - (1 << 32) if v & 0x80000000 else v


class Machine:
    def __init__(self, prog, fname, out_name, regions, args, max_steps=400000):
        self.p = prog
        self.fname = fname
        self.out_name = out_name
        self.regions = dict(regions)
        self.out = []
        self.ntmp = 0
        self.mem = {}          # (region, off) -> value (all cells are 4 bytes)
        self.reg = {r: Entry(r) for r in REGS}
        self.entry = dict(self.reg)
        self.reg["sp"] = Ptr("stack", 0)
        for k, v in args.items():
            self.reg[k] = v
        self.flags = "unset at entry"     # str (reason why unusable) or dict N,Z,C,V -> 0/1/None
        self.min_sp = 0
        self.inputs = []
        self.stores = {}
        self.max_steps = max_steps
        self.pc = 0
        self.report = {"loads": 0, "stores": 0, "max_frame": 0, "steps": 0}

    # ---- values
    def tmp(self, expr):
        n = "t%d" % self.ntmp
        self.ntmp += 1
        self.out.append("    uint32_t %s = %s;" % (n, expr))
        return Sym(n)

    def cexpr(self, v):
        if isinstance(v, int):
            return "UINT32_C(0x%x)" % (v & M32)
        if isinstance(v, Sym):
            return v.e
        if isinstance(v, Entry):
            raise ExecError("entry value of %s (never set by the function) used as data" % v.name)
        if isinstance(v, Poison):
            raise ExecError("undefined value used as data: " + v.why)
        raise ExecError("value of kind %s used as data" % type(v).__name__)

    def regname(self, s):
        n = s.strip().lower()
        n = ALIAS.get(n, n)
        if n in self.reg or n == "pc":
            return n
        raise ExecError("unknown register " + s)

    def isreg(self, s):
        n = s.strip().lower()
        n = ALIAS.get(n, n)
        return n in self.reg or n == "pc"

    def rd(self, s):
        n = self.regname(s)
        if n == "pc":
            raise ExecError("pc as a source operand is not modelled")
        return self.reg[n]

    def wr(self, s, v):
        n = self.regname(s)
        if n == "pc":
            raise ExecError("internal: write to pc must be handled by the caller")
        if isinstance(v, int):
            v &= M32
        if n == "sp":
            if not isinstance(v, Ptr) or v.region != "stack":
                raise ExecError("stack pointer set to something that is not a stack address")
            if v.off % 4:
                raise ExecError("ABI: stack pointer not 4-byte aligned")
            if v.off > 0:
                raise ExecError("ABI: stack pointer moved above its entry value")
            self.min_sp = min(self.min_sp, v.off)
            # cells below the new sp are dead (an interrupt may overwrite them)
            for key in [k for k in self.mem if k[0] == "stack" and k[1] < v.off]:
                del self.mem[key]
        self.reg[n] = v

    def imm(self, s):
        s = s.strip()
        if s.startswith("#"):
            s = s[1:].strip()
        try:
            return int(s, 0) & M32
        except ValueError:
            raise ExecError("cannot evaluate immediate " + s)

    # ---- shifts
    def shift(self, kind, v, n, imm_form):
        """value of v shifted by the concrete amount n (0..255)"""
        if kind == "rrx":
            raise ExecError("rrx is not modelled")
        if n == 0:
            return v
        if imm_form and n > 32 or imm_form and n == 32 and kind in ("lsl", "ror"):
            raise ExecError("shift amount #%d out of range" % n)
        if isinstance(v, int):
            v &= M32
            if kind == "ror":
                return _rotr(v, n)
            if kind == "lsl":
                return (v << n) & M32 if n < 32 else 0
            if kind == "lsr":
                return v >> n if n < 32 else 0
            return (_s32(v) >> min(n, 31)) & M32
        e = self.cexpr(v)
        if kind == "ror":
            n %= 32
            return v if n == 0 else self.tmp("(%s >> %d) | (%s << %d)" % (e, n, e, 32 - n))
        if kind == "lsl":
            return 0 if n >= 32 else self.tmp("%s << %d" % (e, n))
        if kind == "lsr":
            return 0 if n >= 32 else self.tmp("%s >> %d" % (e, n))
        return self.tmp("(uint32_t)((int32_t)%s >> %d)" % (e, min(n, 31)))

    def shift_spec(self, v, spec):
        """apply `ror #n` / `lsl r3` ... to v"""
        m = re.match(r"^(ror|lsl|lsr|asr|rrx)\s*(.*)$", spec.strip().lower())
        if not m:
            raise ExecError("bad shift specification " + spec)
        kind, amt = m.group(1), m.group(2).strip()
        if kind == "rrx":
            raise ExecError("rrx is not modelled")
        if amt.startswith("#"):
            return self.shift(kind, v, self.imm(amt), True)
        n = self.rd(amt)
        if not isinstance(n, int):
            raise ExecError("shift/rotate amount depends on data (register %s)" % amt)
        return self.shift(kind, v, n & 0xff, False)

    def op2(self, ops):
        """flexible second operand: #imm | rm | rm, <shift>"""
        if ops[0].startswith("#"):
            if len(ops) != 1:
                raise ExecError("bad operand")
            return self.imm(ops[0])
        v = self.rd(ops[0])
        if len(ops) == 1:
            return v
        if len(ops) == 2:
            if not isinstance(v, (int, Sym)):
                self.cexpr(v)
            return self.shift_spec(v, ops[1])
        raise ExecError("bad operand")

    # ---- memory
    def check_access(self, a, write):
        what = "store" if write else "load"
        if a.off % 4:
            raise ExecError("%s at %s%+d is not word aligned" % (what, a.region, a.off))
        if a.region == "stack":
            sp = self.reg["sp"]
            if a.off + 4 > 0:
                raise ExecError("%s at or above the entry stack pointer (stack%+d): outside the function's own frame" % (what, a.off))
            if a.off < sp.off:
                raise ExecError("%s below the stack pointer (stack%+d, sp at stack%+d)" % (what, a.off, sp.off))
            return
        if a.region not in self.regions:
            raise ExecError("access to unknown region " + a.region)
        if a.off < 0 or a.off + 4 > self.regions[a.region]:
            raise ExecError("%s outside object '%s' (offset %d size 4, object size %d)" % (what, a.region, a.off, self.regions[a.region]))

    def load(self, a):
        if isinstance(a, Lbl):
            items = self.p.data.get(a.name)
            if not items:
                raise ExecError("load from a label that carries no data: " + a.name)
            pos = 0
            for sz, e in items:
                if pos == a.off:
                    m = re.match(r"^([.\w$]+)-([.\w$]+)$", e)
                    if m:
                        return LblDiff(m.group(1), m.group(2))
                    if e in self.p.labels:
                        return Lbl(e, 0)
                    try:
                        return int(e, 0) & M32
                    except ValueError:
                        raise ExecError("cannot evaluate data word " + e)
                pos += sz
            raise ExecError("load outside the data table %s (offset %d, table size %d)" % (a.name, a.off, pos))
        if not isinstance(a, Ptr):
            raise ExecError("load through something that is not a pointer")
        self.check_access(a, False)
        self.report["loads"] += 1
        key = (a.region, a.off)
        if key in self.mem:
            return self.mem[key]
        if a.region == "stack":
            raise ExecError("load of uninitialised stack slot stack%+d" % a.off)
        cn = "in_%s_%d" % (a.region, a.off)
        self.inputs.append((a.region, a.off, cn))
        v = Sym(cn)
        self.mem[key] = v
        return v

    def store(self, a, v):
        if not isinstance(a, Ptr):
            raise ExecError("store through something that is not a pointer")
        self.check_access(a, True)
        self.report["stores"] += 1
        if a.region != "stack":
            if not isinstance(v, (int, Sym)):
                self.cexpr(v)      # raises: only data may be written to an argument object
            self.stores[(a.region, a.off)] = 4
        self.mem[(a.region, a.off)] = v

    def address(self, ops):
        """ops: the operands after rt.  returns (address, writeback or None)"""
        m = re.match(r"^\[(.*)\](!?)$", ops[0].strip())
        if not m:
            raise ExecError("bad memory operand " + ops[0])
        inner = _split_ops(m.group(1))
        pre_wb = m.group(2) == "!"
        bname = self.regname(inner[0])
        if bname == "pc":
            raise ExecError("pc-relative addressing is not modelled (use adr / ldr =)")
        base = self.reg[bname]
        if not isinstance(base, (Ptr, Lbl)):
            raise ExecError("base register %s does not hold a pointer (kind %s): address depends on data or is wild" % (inner[0], type(base).__name__))

        def offset(parts):
            if parts[0].startswith("#"):
                if len(parts) != 1:
                    raise ExecError("bad memory operand")
                return _s32(self.imm(parts[0]))
            neg = parts[0].startswith("-")
            iv = self.rd(parts[0].lstrip("+-"))
            if not isinstance(iv, int):
                raise ExecError("index register %s is not a concrete value (address would depend on data)" % parts[0])
            if len(parts) > 1:
                iv = self.shift_spec(iv, parts[1])
            iv = _s32(iv)
            return -iv if neg else iv

        def plus(b, d):
            return Ptr(b.region, b.off + d) if isinstance(b, Ptr) else Lbl(b.name, b.off + d)

        if len(ops) > 1:       # post-indexed
            if pre_wb or len(inner) != 1:
                raise ExecError("bad memory operand")
            return base, (bname, plus(base, offset(ops[1:])))
        a = plus(base, offset(inner[1:])) if len(inner) > 1 else base
        return a, ((bname, a) if pre_wb else None)

    def reglist(self, s):
        m = re.match(r"^\{(.*)\}$", s.strip())
        if not m:
            raise ExecError("bad register list " + s)
        names = []
        for part in m.group(1).split(","):
            part = part.strip()
            if "-" in part:
                a, b = [self.regname(x) for x in part.split("-")]
                for i in range(REGNUM[a], REGNUM[b] + 1):
                    names.append((REGS + ["pc"])[i])
            else:
                names.append(self.regname(part))
        if len(set(names)) != len(names):
            raise ExecError("register repeated in list " + s)
        return sorted(names, key=lambda r: REGNUM[r])   # lowest register at the lowest address

    # ---- flags
    def set_nz(self, r):
        if isinstance(r, int):
            old = self.flags if isinstance(self.flags, dict) else {}
            self.flags = {"N": (r >> 31) & 1, "Z": int(r & M32 == 0), "C": None, "V": old.get("V")}
        else:
            self.flags = "computed from data"

    def set_addsub(self, a, b, sub):
        """flags of a+b or a-b (concrete only)"""
        if not (isinstance(a, int) and isinstance(b, int)):
            self.flags = "computed from data" if isinstance(a, (int, Sym)) and isinstance(b, (int, Sym)) else "computed from a non-numeric value"
            return
        a &= M32
        b &= M32
        full = a + ((~b) & M32) + 1 if sub else a + b
        r = full & M32
        sa, sb = _s32(a), _s32(b)
        sr = sa - sb if sub else sa + sb
        self.flags = {"N": (r >> 31) & 1, "Z": int(r == 0), "C": int(full > M32), "V": int(sr != _s32(r))}

    def cond(self, cc):
        if cc == "al":
            return True
        if not isinstance(self.flags, dict):
            raise ExecError("conditional branch on flags that are %s" % self.flags)
        f = self.flags
        need = {"eq": "Z", "ne": "Z", "cs": "C", "hs": "C", "cc": "C", "lo": "C", "mi": "N", "pl": "N", "vs": "V", "vc": "V",
                "hi": "CZ", "ls": "CZ", "ge": "NV", "lt": "NV", "gt": "ZNV", "le": "ZNV"}[cc]
        for k in need:
            if f.get(k) is None:
                raise ExecError("condition %s needs flag %s which is not modelled after the last flag-setting instruction" % (cc, k))
        N, Z, C, V = f.get("N"), f.get("Z"), f.get("C"), f.get("V")
        return {"eq": lambda: Z == 1, "ne": lambda: Z == 0, "cs": lambda: C == 1, "hs": lambda: C == 1,
                "cc": lambda: C == 0, "lo": lambda: C == 0, "mi": lambda: N == 1, "pl": lambda: N == 0,
                "vs": lambda: V == 1, "vc": lambda: V == 0, "hi": lambda: C == 1 and Z == 0,
                "ls": lambda: C == 0 or Z == 1, "ge": lambda: N == V, "lt": lambda: N != V,
                "gt": lambda: Z == 0 and N == V, "le": lambda: Z == 1 or N != V}[cc]()

    # ---- control
    def label_index(self, name):
        name = name.strip()
        if name not in self.p.labels:
            raise ExecError("branch to unknown label " + name)
        return self.p.labels[name]

    def do_return(self, target):
        if not (isinstance(target, Entry) and target.name == "lr"):
            raise ExecError("ABI: return to something that is not the entry value of lr")
        sp = self.reg["sp"]
        if not isinstance(sp, Ptr) or sp.region != "stack" or sp.off != 0:
            raise ExecError("ABI: stack pointer at return differs from its entry value")
        for r in CALLEE_SAVED:
            v = self.reg[r]
            if not (isinstance(v, Entry) and v.name == r):
                raise ExecError("ABI: callee-saved register %s not restored at return" % r)
        return "ret"

    def branch_to_value(self, v):
        """write of v to pc"""
        if isinstance(v, Entry):
            return self.do_return(v)
        if isinstance(v, Lbl):
            if v.off != 0:
                raise ExecError("computed branch into the middle of %s" % v.name)
            return self.label_index(v.name)
        if isinstance(v, CodeAddr):
            return v.idx
        if isinstance(v, (Sym,)):
            raise ExecError("indirect branch through a data value")
        raise ExecError("indirect branch through a value that is not a code address (kind %s)" % type(v).__name__)

    def run(self):
        if self.fname not in self.p.labels:
            raise ExecError("function %s not found" % self.fname)
        pc = self.p.labels[self.fname]
        steps = 0
        self.mode = None
        while True:
            steps += 1
            if steps > self.max_steps:
                raise ExecError("step limit")
            if pc >= len(self.p.ins):
                raise ExecError("fell off the end of the text")
            mn, ops, src, mode = self.p.ins[pc]
            if self.mode is None:
                self.mode = mode
            elif mode != self.mode:
                raise ExecError("execution crossed from %s into %s code without an interworking branch [at `%s`]" % (self.mode, mode, src))
            self.pc = pc
            try:
                r = self.step(mn, ops)
            except ExecError as e:
                raise ExecError("%s  [at `%s`]" % (e, src))
            except (IndexError, KeyError) as e:
                raise ExecError("malformed instruction (%r)  [at `%s`]" % (e, src))
            if r == "ret":
                break
            pc = r if isinstance(r, int) else pc + 1
        self.report["steps"] = steps
        self.report["max_frame"] = -self.min_sp
        self.report["isa"] = self.mode
        return self.finish()

    def step(self, mn, ops):
        if mn == ".word":
            raise ExecError("execution ran into a data word")
        if mn == "nop":
            return None
        # ---- branches
        if mn == "b":
            return self.label_index(ops[0])
        if mn == "bl":
            self.reg["lr"] = CodeAddr(self.pc + 1)
            return self.label_index(ops[0])
        if mn == "bx":
            return self.branch_to_value(self.rd(ops[0]))
        if mn[0] == "b" and mn[1:] in CONDS:
            return self.label_index(ops[0]) if self.cond(mn[1:]) else None
        if mn in ("cbz", "cbnz"):
            v = self.rd(ops[0])
            if not isinstance(v, int):
                raise ExecError("%s on a value that is not concrete (depends on data)" % mn)
            return self.label_index(ops[1]) if (v == 0) == (mn == "cbz") else None
        # ---- stack
        if mn in ("push", "pop") or mn in ("stmdb", "stmfd", "ldmia", "ldmfd", "ldm") and self.regname(ops[0].rstrip("!")) == "sp" and ops[0].endswith("!"):
            names = self.reglist(ops[-1])
            sp = self.reg["sp"]
            if mn in ("push", "stmdb", "stmfd"):
                if "pc" in names or "sp" in names:
                    raise ExecError("push of pc/sp is not modelled")
                self.wr("sp", Ptr("stack", sp.off - 4 * len(names)))
                for i, r in enumerate(names):
                    self.store(Ptr("stack", self.reg["sp"].off + 4 * i), self.reg[r])
                return None
            if "sp" in names:
                raise ExecError("pop of sp is not modelled")
            vals = [self.load(Ptr("stack", sp.off + 4 * i)) for i in range(len(names))]
            self.wr("sp", Ptr("stack", sp.off + 4 * len(names)))
            newpc = None
            for r, v in zip(names, vals):
                if r == "pc":
                    newpc = v
                else:
                    self.wr(r, v)
            if newpc is not None:
                return self.branch_to_value(newpc)
            return None
        # ---- loads / stores (words only)
        if mn == "ldr":
            if ops[1].startswith("="):
                e = ops[1][1:].strip()
                self.wr(ops[0], Lbl(e, 0) if e in self.p.labels else self.imm(e))
                return None
            if not ops[1].startswith("["):
                if ops[1].strip() in self.p.labels:
                    self.wr(ops[0], self.load(Lbl(ops[1].strip(), 0)))
                    return None
                raise ExecError("bad ldr operand")
            a, wb = self.address(ops[1:])
            v = self.load(a)
            if wb:
                self.wr(wb[0], wb[1])
            if self.regname(ops[0]) == "pc":
                return self.branch_to_value(v)
            self.wr(ops[0], v)
            return None
        if mn == "str":
            a, wb = self.address(ops[1:])
            self.store(a, self.rd(ops[0]))
            if wb:
                self.wr(wb[0], wb[1])
            return None
        if mn == "adr":
            if ops[1].strip() not in self.p.labels:
                raise ExecError("adr of unknown label " + ops[1])
            self.wr(ops[0], Lbl(ops[1].strip(), 0))
            return None
        # ---- compare
        if mn in ("cmp", "cmn", "tst", "teq"):
            a = self.rd(ops[0])
            b = self.op2(ops[1:])
            if mn == "cmp":
                self.set_addsub(a, b, True)
            elif mn == "cmn":
                self.set_addsub(a, b, False)
            elif isinstance(a, int) and isinstance(b, int):
                self.set_nz(a & b if mn == "tst" else a ^ b)
            else:
                self.flags = "computed from data"
            return None
        # ---- data processing
        base, setflags = None, False
        if mn in ALU:
            base = mn
        elif mn[-1] == "s" and mn[:-1] in ALU:
            base, setflags = mn[:-1], True
        if base is None:
            raise ExecError("unmodelled instruction " + mn)
        dst = self.regname(ops[0])
        if base in SHIFTS:
            if len(ops) == 2:
                src, amt = ops[0], ops[1]
            elif len(ops) == 3:
                src, amt = ops[1], ops[2]
            else:
                raise ExecError("bad operands")
            v = self.rd(src)
            if not isinstance(v, (int, Sym)):
                self.cexpr(v)
            if amt.startswith("#"):
                n = self.imm(amt)
                if n > 32 or n == 0 and base == "ror":
                    raise ExecError("shift amount out of range")
                r = self.shift(base, v, n, True)
            else:
                n = self.rd(amt)
                if not isinstance(n, int):
                    raise ExecError("shift/rotate amount depends on data (register %s)" % amt)
                r = self.shift(base, v, n & 0xff, False)
        elif base in ("mov", "mvn"):
            v = self.op2(ops[1:])
            if base == "mov":
                r = v
            elif isinstance(v, int):
                r = ~v & M32
            else:
                r = self.tmp("~%s" % self.cexpr(v))
        else:
            last_is_shift = re.match(r"^(ror|lsl|lsr|asr|rrx)\b", ops[-1].strip().lower()) is not None
            nops = len(ops) - (1 if last_is_shift else 0)
            if nops == 2:
                a = self.rd(ops[0])
                b = self.op2(ops[1:])
            elif nops == 3:
                a = self.rd(ops[1])
                b = self.op2(ops[2:])
            else:
                raise ExecError("bad operands")
            r = self.alu(base, a, b, setflags)
            if base in ("add", "sub", "rsb") and setflags:
                setflags = False      # already done in alu()
        if dst == "pc":
            if setflags:
                raise ExecError("flag-setting write to pc is not modelled")
            return self.branch_to_value(r)
        self.wr(dst, r)
        if setflags:
            if isinstance(r, (int, Sym)):
                self.set_nz(r)
            else:
                self.flags = "computed from a non-numeric value"
        return None

    def alu(self, base, a, b, setflags):
        if base == "rsb":
            base, a, b = "sub", b, a
        if base in ("add", "sub"):
            if setflags:
                self.set_addsub(a, b, base == "sub")
            if isinstance(a, Ptr) and isinstance(b, int):
                d = _s32(b)
                return Ptr(a.region, a.off + d if base == "add" else a.off - d)
            if base == "add" and isinstance(b, Ptr) and isinstance(a, int):
                return Ptr(b.region, b.off + _s32(a))
            if isinstance(a, Lbl) and isinstance(b, int):
                d = _s32(b)
                return Lbl(a.name, a.off + d if base == "add" else a.off - d)
            if base == "add":
                for x, y in ((a, b), (b, a)):
                    if isinstance(x, LblDiff) and isinstance(y, Lbl):
                        if x.b == y.name and y.off == 0:
                            return Lbl(x.a, 0)
                        raise ExecError("label arithmetic that does not yield a label")
            if isinstance(a, int) and isinstance(b, int):
                return (a + b if base == "add" else a - b) & M32
            return self.tmp("%s %s %s" % (self.cexpr(a), "+" if base == "add" else "-", self.cexpr(b)))
        if isinstance(a, int) and isinstance(b, int):
            return {"eor": a ^ b, "and": a & b, "orr": a | b, "bic": a & ~b, "orn": a | ~b}[base] & M32
        ea, eb = self.cexpr(a), self.cexpr(b)
        if base == "bic":
            return self.tmp("%s & ~%s" % (ea, eb))
        if base == "orn":
            return self.tmp("%s | ~%s" % (ea, eb))
        return self.tmp("%s %s %s" % (ea, {"eor": "^", "and": "&", "orr": "|"}[base], eb))

    def finish(self):
        lines = []
        regs = sorted(self.regions)
        lines.append("static void %s(%s)" % (self.out_name, ", ".join("uint8_t *%s" % r for r in regs) or "void"))
        lines.append("{")
        for region, off, cn in self.inputs:
            lines.append("    uint32_t %s = A32_LD32(%s + %d);" % (cn, region, off))
        lines += self.out
        for (region, off) in sorted(self.stores):
            lines.append("    A32_ST32(%s + %d, %s);" % (region, off, self.cexpr(self.mem[(region, off)])))
        lines.append("}")
        return "\n".join(lines)


PRELUDE = """#include <stdint.h>
#include <string.h>
#ifndef VERIF_ASM_ARM32_PRELUDE
#define VERIF_ASM_ARM32_PRELUDE
/* little-endian 32-bit word accesses (ldr/str on a little-endian ARM target) */
static inline uint32_t A32_LD32(const uint8_t *p) { return (uint32_t)p[0] | ((uint32_t)p[1] << 8) | ((uint32_t)p[2] << 16) | ((uint32_t)p[3] << 24); }
static inline void A32_ST32(uint8_t *p, uint32_t v) { p[0] = (uint8_t)v; p[1] = (uint8_t)(v >> 8); p[2] = (uint8_t)(v >> 16); p[3] = (uint8_t)(v >> 24); }
#endif
"""


def translate(asm_text, fname, first_round, out_name):
    """common executor interface (see validate.py): AAPCS32, r0 = state pointer, r1 = first_round
    (zero-extended by the caller as AAPCS32 requires for a uint8_t argument)"""
    prog = Program(asm_text)
    m = Machine(prog, fname, out_name, {"state": 40}, {"r0": Ptr("state", 0), "r1": first_round & M32})
    body = m.run()
    return PRELUDE + body, dict(m.report, inputs=len(m.inputs), written=sorted(o for (_, o) in m.stores))
