"""Partial-evaluating symbolic executor for the AArch64 (A64, GNU syntax) assembly file of
ascon-suite (DESIGN 3 C18):

    /repo/src/core/ascon-asm-armv8a-64.S

Same scheme as x86_64.py: control flow and addresses are evaluated concretely from the public
argument first_round (x1/w1); data stays symbolic and is emitted as straight-line SSA C over
uint64_t (32-bit W-register operations are masked to 32 bits and zero-extended, as the hardware
does).  Enforced on the path that is followed (ExecError otherwise):
  * ABI (AAPCS64): at `ret` sp equals its entry value, x19-x28 and x29 hold their entry values and
    the return goes to the entry value of x30;
  * footprint: every load/store is naturally aligned and lies inside the 40-byte state object or
    inside the function's own frame [sp, entry sp) (no red zone); sp must be 16-byte aligned
    whenever it is used as a base address;
  * secret independence: a conditional branch on flags produced from data, cbz/tbz on data, an
    indirect branch through data, a register shift amount or an address component that is
    symbolic is refused;
  * every instruction that is not modelled is refused (in particular all SIMD/FP instructions, so
    the callee-saved d8-d15 cannot be touched).
Registers never written by the function are `Entry` tokens: they may be moved and saved/restored,
but not used as data.
"""
import os
import re

from x86_64 import ExecError, Sym, Ptr, Lbl, LblDiff, Poison
from x86_64 import preprocess as _cpp

LAYOUT = "sliced64-le"
M64 = (1 << 64) - 1
M32 = (1 << 32) - 1

TARGET_DEFINES = {
    "ascon-asm-armv8a-64.S": ["-D__ARM_ARCH_8A", "-D__ARM_ARCH_ISA_A64", "-D__aarch64__", "-D__ARM_ARCH=8",
                              "-U__x86_64__", "-U__x86_64"],
}

REGS = ["x%d" % i for i in range(31)] + ["sp"]
CALLEE_SAVED = ["x%d" % i for i in range(19, 30)]
CONDS = ["eq", "ne", "cs", "hs", "cc", "lo", "mi", "pl", "vs", "vc", "hi", "ls", "ge", "lt", "gt", "le", "al"]
LOGIC = {"eor": ("^", False), "and": ("&", False), "orr": ("|", False),
         "bic": ("&", True), "orn": ("|", True), "eon": ("^", True)}
SHIFTS = ("ror", "lsl", "lsr", "asr")


class Entry:
    """value a register had when the function was entered (opaque: not data, not an address)"""
    __slots__ = ("name",)

    def __init__(self, name):
        self.name = name


def preprocess(path, incdirs, defines):
    """gcc -E on the (x86-64) host with the target's predefined macros; if no defines are given the
    ones recorded in TARGET_DEFINES for that file are used."""
    defines = list(defines) or list(TARGET_DEFINES.get(os.path.basename(path), []))
    text = _cpp(path, incdirs, defines)
    if not re.search(r"^\s*\w+:", text, re.M):
        raise ExecError("pre-processing %s with %s selected no code (wrong ASCON_BACKEND_* branch?)" % (path, " ".join(defines)))
    return text


def _split_ops(s):
    ops, depth, cur = [], 0, ""
    for ch in s:
        if ch in "[{":
            depth += 1
        elif ch in "]}":
            depth -= 1
        if ch == "," and depth == 0:
            ops.append(cur.strip())
            cur = ""
        else:
            cur += ch
    if cur.strip():
        ops.append(cur.strip())
    return ops


class Program:
    def __init__(self, text):
        self.ins = []        # (mnemonic, [operands], source line)
        self.labels = {}     # label -> instruction index
        self.data = {}       # label -> list of (size, expr)
        cur = None
        for raw in text.splitlines():
            line = raw.split("//")[0]
            for stmt in line.split(";"):
                stmt = stmt.strip()
                while True:
                    m = re.match(r"^([.\w$]+):\s*(.*)$", stmt)
                    if not m:
                        break
                    lab = m.group(1)
                    if lab in self.labels:
                        raise ExecError("label %s defined twice" % lab)
                    self.labels[lab] = len(self.ins)
                    self.data[lab] = []
                    cur = lab
                    stmt = m.group(2).strip()
                if not stmt:
                    continue
                parts = stmt.split(None, 1)
                head = parts[0].lower()
                rest = parts[1].strip() if len(parts) > 1 else ""
                if head.startswith("."):
                    sizes = {".word": 4, ".long": 4, ".4byte": 4, ".int": 4, ".quad": 8, ".xword": 8, ".8byte": 8, ".dword": 8}
                    if head in sizes:
                        for e in _split_ops(rest):
                            if cur is not None:
                                self.data[cur].append((sizes[head], e.replace(" ", "")))
                            self.ins.append((".data", [e], raw.strip()))
                    elif head in (".byte", ".hword", ".short", ".2byte", ".ascii", ".asciz", ".string", ".space", ".skip", ".zero", ".fill", ".inst"):
                        cur = None
                        self.ins.append((".data", [rest], raw.strip()))
                    elif head in (".macro", ".rept", ".irp", ".if", ".ifdef", ".include", ".req", ".set", ".equ"):
                        raise ExecError("assembler directive %s is not modelled" % head)
                    # .text .align .p2align .global .type .size .arch .cfi_* .ltorg ... have no effect here
                    continue
                cur = None
                self.ins.append((head, _split_ops(rest), raw.strip()))


def _sx(v, bits):
    return v - (1 << bits) if v >> (bits - 1) & 1 else v


class Machine:
    def __init__(self, prog, fname, out_name, regions, args, max_steps=400000):
        self.p = prog
        self.fname = fname
        self.out_name = out_name
        self.regions = dict(regions)
        self.out = []
        self.ntmp = 0
        self.mem = {}          # (region, off) -> (size, value)
        self.reg = {r: Entry(r) for r in REGS}
        self.reg["sp"] = Ptr("stack", 0)
        for k, v in args.items():
            self.reg[k] = v
        self.flags = "unset at entry"
        self.min_sp = 0
        self.inputs = []
        self.stores = {}
        self.max_steps = max_steps
        self.pc = 0
        self.report = {"loads": 0, "stores": 0, "max_frame": 0, "steps": 0, "x18_written": False}

    # ---- values
    def tmp(self, expr):
        n = "t%d" % self.ntmp
        self.ntmp += 1
        self.out.append("    uint64_t %s = %s;" % (n, expr))
        return Sym(n)

    def cexpr(self, v):
        if isinstance(v, int):
            return "UINT64_C(0x%x)" % (v & M64)
        if isinstance(v, Sym):
            return v.e
        if isinstance(v, Entry):
            raise ExecError("entry value of %s (never set by the function) used as data" % v.name)
        if isinstance(v, Poison):
            raise ExecError("undefined value used as data: " + v.why)
        raise ExecError("value of kind %s used as data" % type(v).__name__)

    def parse_reg(self, s, sp_ok=False):
        """-> (canonical name or 'zr', width in bits)"""
        n = s.strip().lower()
        if n in ("xzr", "wzr"):
            return "zr", 64 if n[0] == "x" else 32
        if n == "sp" or n == "wsp":
            if not sp_ok:
                raise ExecError("sp is not a valid operand here")
            return "sp", 64 if n == "sp" else 32
        if n == "lr":
            return "x30", 64
        m = re.match(r"^([xw])(\d+)$", n)
        if m and int(m.group(2)) <= 30:
            return "x%d" % int(m.group(2)), 64 if m.group(1) == "x" else 32
        raise ExecError("unknown or unmodelled register " + s)

    def isreg(self, s):
        try:
            self.parse_reg(s, True)
            return True
        except ExecError:
            return False

    def mask(self, v, w):
        """low w bits of a data value"""
        if w == 64:
            return v
        if isinstance(v, int):
            return v & M32
        if isinstance(v, Sym):
            return self.tmp("%s & UINT64_C(0xffffffff)" % v.e)
        self.cexpr(v)

    def rd(self, s, sp_ok=False):
        """-> (value, width); W reads give the low 32 bits"""
        n, w = self.parse_reg(s, sp_ok)
        if n == "zr":
            return 0, w
        v = self.reg[n]
        if w == 32:
            if isinstance(v, (int, Sym)):
                return self.mask(v, 32), 32
            raise ExecError("W-register read of a value that is not data (%s holds a %s)" % (n, type(v).__name__))
        return v, 64

    def wr(self, s, v, sp_ok=False):
        n, w = self.parse_reg(s, sp_ok)
        if n == "zr":
            return
        if w == 32:
            v = self.mask(v, 32)      # W writes zero-extend
        elif isinstance(v, int):
            v &= M64
        if n == "sp":
            if not isinstance(v, Ptr) or v.region != "stack":
                raise ExecError("stack pointer set to something that is not a stack address")
            if v.off > 0:
                raise ExecError("ABI: stack pointer moved above its entry value")
            self.min_sp = min(self.min_sp, v.off)
            for key in [k for k in self.mem if k[0] == "stack" and k[1] < v.off]:
                del self.mem[key]
        if n == "x18":
            self.report["x18_written"] = True
        self.reg[n] = v

    def imm(self, s):
        s = s.strip()
        if s.startswith("#"):
            s = s[1:].strip()
        try:
            return int(s, 0) & M64
        except ValueError:
            raise ExecError("cannot evaluate immediate " + s)

    def isimm(self, s):
        return re.match(r"^#|^[-+]?(0x[0-9a-fA-F]+|\d+)$", s.strip()) is not None

    # ---- shifts
    def shift(self, kind, v, n, w):
        mk = M64 if w == 64 else M32
        if not 0 <= n < w:
            raise ExecError("shift amount %d out of range" % n)
        if n == 0:
            return v
        if isinstance(v, int):
            v &= mk
            if kind == "ror":
                return ((v >> n) | (v << (w - n))) & mk
            if kind == "lsl":
                return (v << n) & mk
            if kind == "lsr":
                return v >> n
            return (_sx(v, w) >> n) & mk
        e = self.cexpr(v)       # W values are kept zero-extended
        if kind == "ror":
            r = "(%s >> %d) | (%s << %d)" % (e, n, e, w - n)
        elif kind == "lsl":
            r = "%s << %d" % (e, n)
        elif kind == "lsr":
            r = "%s >> %d" % (e, n)
        elif w == 64:
            r = "(uint64_t)((int64_t)%s >> %d)" % (e, n)
        else:
            r = "(uint64_t)(uint32_t)((int32_t)(uint32_t)%s >> %d)" % (e, n)
        if w == 32 and kind in ("ror", "lsl"):
            r = "(%s) & UINT64_C(0xffffffff)" % r
        return self.tmp(r)

    def op2(self, ops, w):
        """#imm{, lsl #12} | reg | reg, <shift> #n"""
        if self.isimm(ops[0]):
            v = self.imm(ops[0])
            if len(ops) == 2:
                m = re.match(r"^lsl\s+#?(\d+)$", ops[1].strip().lower())
                if not m:
                    raise ExecError("bad immediate shift")
                v = (v << int(m.group(1))) & M64
            elif len(ops) != 1:
                raise ExecError("bad operand")
            return v & (M64 if w == 64 else M32)
        v, vw = self.rd(ops[0])
        if vw != w:
            raise ExecError("operand width mismatch (extended-register forms are not modelled)")
        if len(ops) == 1:
            return v
        if len(ops) != 2:
            raise ExecError("bad operand")
        m = re.match(r"^(ror|lsl|lsr|asr)\s+#?(-?\w+)$", ops[1].strip().lower())
        if not m:
            raise ExecError("unmodelled operand modifier " + ops[1])
        if not isinstance(v, (int, Sym)):
            self.cexpr(v)
        return self.shift(m.group(1), v, self.imm(m.group(2)), w)

    # ---- memory
    def check_access(self, a, size, write):
        what = "store" if write else "load"
        if a.off % size:
            raise ExecError("%s of %d bytes at %s%+d is not naturally aligned" % (what, size, a.region, a.off))
        if a.region == "stack":
            sp = self.reg["sp"]
            if a.off + size > 0:
                raise ExecError("%s at or above the entry stack pointer (stack%+d): outside the function's own frame" % (what, a.off))
            if a.off < sp.off:
                raise ExecError("%s below the stack pointer (stack%+d, sp at stack%+d)" % (what, a.off, sp.off))
            return
        if a.region not in self.regions:
            raise ExecError("access to unknown region " + a.region)
        if a.off < 0 or a.off + size > self.regions[a.region]:
            raise ExecError("%s outside object '%s' (offset %d size %d, object size %d)" % (what, a.region, a.off, size, self.regions[a.region]))

    def load(self, a, size):
        if isinstance(a, Lbl):
            items = self.p.data.get(a.name)
            if not items:
                raise ExecError("load from a label that carries no data: " + a.name)
            pos = 0
            for sz, e in items:
                if pos == a.off and sz == size:
                    m = re.match(r"^([.\w$]+)-([.\w$]+)$", e)
                    if m:
                        return LblDiff(m.group(1), m.group(2))
                    try:
                        return int(e, 0) & ((1 << (8 * sz)) - 1)
                    except ValueError:
                        raise ExecError("cannot evaluate data item " + e)
                pos += sz
            raise ExecError("load from data label %s+%d" % (a.name, a.off))
        if not isinstance(a, Ptr):
            raise ExecError("load through something that is not a pointer")
        self.check_access(a, size, False)
        self.report["loads"] += 1
        key = (a.region, a.off)
        if key in self.mem:
            sz, v = self.mem[key]
            if sz == size:
                return v
            raise ExecError("load of %d bytes from a cell of %d bytes at %s%+d" % (size, sz, a.region, a.off))
        for (r, o), (sz, _) in self.mem.items():
            if r == a.region and o < a.off + size and a.off < o + sz:
                raise ExecError("load overlapping a cell of different extent at %s%+d" % key)
        if a.region == "stack":
            raise ExecError("load of uninitialised stack slot stack%+d" % a.off)
        cn = "in_%s_%d" % (a.region, a.off)
        self.inputs.append((a.region, a.off, size, cn))
        v = Sym(cn)
        self.mem[key] = (size, v)
        return v

    def store(self, a, size, v):
        if not isinstance(a, Ptr):
            raise ExecError("store through something that is not a pointer")
        self.check_access(a, size, True)
        self.report["stores"] += 1
        for (r, o), (sz, _) in list(self.mem.items()):
            if r == a.region and (o, sz) != (a.off, size) and o < a.off + size and a.off < o + sz:
                raise ExecError("store overlapping a cell of different extent at %s%+d (size %d vs %d@%d)" % (a.region, a.off, size, sz, o))
        if a.region != "stack":
            if not isinstance(v, (int, Sym)):
                self.cexpr(v)      # raises: only data may be written to an argument object
            self.stores[(a.region, a.off)] = size
        self.mem[(a.region, a.off)] = (size, v)

    def address(self, ops, scale):
        """ops: memory operand and, for post-indexing, the increment.  -> (address, writeback or None)"""
        m = re.match(r"^\[(.*)\](!?)$", ops[0].strip())
        if not m:
            raise ExecError("bad memory operand " + ops[0])
        inner = _split_ops(m.group(1))
        pre_wb = m.group(2) == "!"
        bname, bw = self.parse_reg(inner[0], True)
        if bw != 64 or bname == "zr":
            raise ExecError("bad base register " + inner[0])
        base = self.reg[bname]
        if not isinstance(base, (Ptr, Lbl)):
            raise ExecError("base register %s does not hold a pointer (kind %s): address depends on data or is wild" % (inner[0], type(base).__name__))
        if bname == "sp" and base.off % 16:
            raise ExecError("ABI: sp used as a base address while not 16-byte aligned (stack%+d)" % base.off)

        def plus(b, d):
            return Ptr(b.region, b.off + d) if isinstance(b, Ptr) else Lbl(b.name, b.off + d)

        def offset(parts):
            if self.isimm(parts[0]):
                if len(parts) != 1:
                    raise ExecError("bad memory operand")
                return _sx(self.imm(parts[0]), 64)
            iv, iw = self.rd(parts[0])
            if not isinstance(iv, int):
                raise ExecError("index register %s is not a concrete value (address would depend on data)" % parts[0])
            if len(parts) > 1:
                mm = re.match(r"^(lsl|uxtw|sxtw|sxtx)(?:\s+#?(\d+))?$", parts[1].strip().lower())
                if not mm:
                    raise ExecError("bad index modifier " + parts[1])
                if mm.group(1) in ("sxtw",):
                    iv = _sx(iv & M32, 32)
                else:
                    iv = _sx(iv, 64) if iw == 64 else iv & M32
                sh = int(mm.group(2) or 0)
                if sh not in (0, scale):
                    raise ExecError("index shift must be 0 or log2(access size)")
                return iv << sh
            if iw != 64:
                raise ExecError("W index register needs an extend modifier")
            return _sx(iv, 64)

        if len(ops) > 1:       # post-indexed
            if pre_wb or len(inner) != 1:
                raise ExecError("bad memory operand")
            return base, (inner[0], plus(base, offset(ops[1:])))
        a = plus(base, offset(inner[1:])) if len(inner) > 1 else base
        return a, ((inner[0], a) if pre_wb else None)

    # ---- flags
    def set_nz(self, r, w):
        if isinstance(r, int):
            self.flags = {"N": (r >> (w - 1)) & 1, "Z": int(r & ((1 << w) - 1) == 0), "C": 0, "V": 0}
        else:
            self.flags = "computed from data"

    def set_addsub(self, a, b, sub, w):
        if not (isinstance(a, int) and isinstance(b, int)):
            self.flags = "computed from data" if isinstance(a, (int, Sym)) and isinstance(b, (int, Sym)) else "computed from a non-numeric value"
            return
        mk = (1 << w) - 1
        a &= mk
        b &= mk
        full = a + ((~b) & mk) + 1 if sub else a + b
        r = full & mk
        sr = _sx(a, w) - _sx(b, w) if sub else _sx(a, w) + _sx(b, w)
        self.flags = {"N": (r >> (w - 1)) & 1, "Z": int(r == 0), "C": int(full > mk), "V": int(sr != _sx(r, w))}

    def cond(self, cc):
        if cc == "al":
            return True
        if not isinstance(self.flags, dict):
            raise ExecError("conditional branch on flags that are %s" % self.flags)
        N, Z, C, V = (self.flags[k] for k in "NZCV")
        return {"eq": Z == 1, "ne": Z == 0, "cs": C == 1, "hs": C == 1, "cc": C == 0, "lo": C == 0,
                "mi": N == 1, "pl": N == 0, "vs": V == 1, "vc": V == 0, "hi": C == 1 and Z == 0,
                "ls": C == 0 or Z == 1, "ge": N == V, "lt": N != V, "gt": Z == 0 and N == V,
                "le": Z == 1 or N != V}[cc]

    # ---- control
    def label_index(self, name):
        name = name.strip()
        if name not in self.p.labels:
            raise ExecError("branch to unknown label " + name)
        return self.p.labels[name]

    def do_return(self, target):
        if not (isinstance(target, Entry) and target.name == "x30"):
            raise ExecError("ABI: return to something that is not the entry value of x30")
        sp = self.reg["sp"]
        if not isinstance(sp, Ptr) or sp.region != "stack" or sp.off != 0:
            raise ExecError("ABI: stack pointer at return differs from its entry value")
        for r in CALLEE_SAVED:
            v = self.reg[r]
            if not (isinstance(v, Entry) and v.name == r):
                raise ExecError("ABI: callee-saved register %s not restored at return" % r)
        return "ret"

    def run(self):
        if self.fname not in self.p.labels:
            raise ExecError("function %s not found" % self.fname)
        pc = self.p.labels[self.fname]
        steps = 0
        while True:
            steps += 1
            if steps > self.max_steps:
                raise ExecError("step limit")
            if pc >= len(self.p.ins):
                raise ExecError("fell off the end of the text")
            mn, ops, src = self.p.ins[pc]
            self.pc = pc
            try:
                r = self.step(mn, ops)
            except ExecError as e:
                raise ExecError("%s  [at `%s`]" % (e, src))
            except (IndexError, KeyError) as e:
                raise ExecError("malformed instruction (%r)  [at `%s`]" % (e, src))
            if r == "ret":
                break
            pc = r if isinstance(r, int) else pc + 1
        self.report["steps"] = steps
        self.report["max_frame"] = -self.min_sp
        return self.finish()

    def step(self, mn, ops):
        if mn == ".data":
            raise ExecError("execution ran into data")
        if mn == "nop":
            return None
        # ---- branches
        if mn == "b":
            return self.label_index(ops[0])
        if mn.startswith("b.") and mn[2:] in CONDS or mn[0] == "b" and mn[1:] in CONDS:
            cc = mn[2:] if mn[1] == "." else mn[1:]
            return self.label_index(ops[0]) if self.cond(cc) else None
        if mn in ("cbz", "cbnz"):
            v, w = self.rd(ops[0])
            if not isinstance(v, int):
                raise ExecError("%s on a value that is not concrete (depends on data)" % mn)
            return self.label_index(ops[1]) if (v == 0) == (mn == "cbz") else None
        if mn in ("tbz", "tbnz"):
            v, w = self.rd(ops[0])
            if not isinstance(v, int):
                raise ExecError("%s on a value that is not concrete (depends on data)" % mn)
            bit = (v >> self.imm(ops[1])) & 1
            return self.label_index(ops[2]) if (bit == 0) == (mn == "tbz") else None
        if mn == "ret":
            v = self.reg[self.parse_reg(ops[0])[0]] if ops else self.reg["x30"]
            return self.do_return(v)
        if mn == "br":
            v = self.reg[self.parse_reg(ops[0])[0]]
            if isinstance(v, Lbl) and v.off == 0:
                return self.label_index(v.name)
            if isinstance(v, Sym):
                raise ExecError("indirect branch through a data value")
            raise ExecError("indirect branch through a value that is not a code label (kind %s)" % type(v).__name__)
        # ---- loads / stores
        if mn in ("ldr", "ldur", "str", "stur"):
            n, w = self.parse_reg(ops[0])
            size = w // 8
            if mn == "ldr" and ops[1].startswith("="):
                e = ops[1][1:].strip()
                self.wr(ops[0], Lbl(e, 0) if e in self.p.labels else self.imm(e))
                return None
            if mn == "ldr" and not ops[1].startswith("["):
                self.wr(ops[0], self.load(Lbl(ops[1].strip(), 0), size))
                return None
            a, wb = self.address(ops[1:], {4: 2, 8: 3}[size])
            if mn[0] == "l":
                v = self.load(a, size)
                if wb:
                    self.wr(wb[0], wb[1], True)
                if w == 32 and not isinstance(v, (int, Sym)):
                    raise ExecError("32-bit load of a saved non-data value")
                self.wr(ops[0], v)
            else:
                v = self.rd(ops[0])[0]
                self.store(a, size, v)
                if wb:
                    self.wr(wb[0], wb[1], True)
            return None
        if mn in ("ldp", "stp"):
            n1, w1 = self.parse_reg(ops[0])
            n2, w2 = self.parse_reg(ops[1])
            if w1 != w2:
                raise ExecError("register widths differ")
            size = w1 // 8
            a, wb = self.address(ops[2:], 99)
            if not isinstance(a, Ptr):
                raise ExecError("ldp/stp through something that is not a pointer")
            a2 = Ptr(a.region, a.off + size)
            if mn == "ldp":
                if n1 == n2 and n1 != "zr":
                    raise ExecError("ldp with identical destination registers")
                v1, v2 = self.load(a, size), self.load(a2, size)
                if wb:
                    self.wr(wb[0], wb[1], True)
                self.wr(ops[0], v1)
                self.wr(ops[1], v2)
            else:
                v1, v2 = self.rd(ops[0])[0], self.rd(ops[1])[0]
                self.store(a, size, v1)
                self.store(a2, size, v2)
                if wb:
                    self.wr(wb[0], wb[1], True)
            return None
        if mn == "adr":
            if ops[1].strip() not in self.p.labels:
                raise ExecError("adr of unknown label " + ops[1])
            self.wr(ops[0], Lbl(ops[1].strip(), 0))
            return None
        # ---- moves
        if mn in ("mov", "mvn"):
            dn, w = self.parse_reg(ops[0], True)
            if self.isimm(ops[1]):
                v = self.imm(ops[1]) & (M64 if w == 64 else M32)
            else:
                sn, sw = self.parse_reg(ops[1], True)
                if sw != w:
                    raise ExecError("register widths differ")
                if len(ops) > 2:
                    v = self.op2(ops[1:], w)
                elif sn == "sp" or w == 64 and sn != "zr":
                    v = self.reg[sn]          # plain 64-bit move: any kind of value
                else:
                    v = self.rd(ops[1])[0]
            if mn == "mvn":
                if isinstance(v, int):
                    v = ~v & (M64 if w == 64 else M32)
                else:
                    v = self.tmp("~%s" % self.cexpr(v))
                    v = self.mask(v, w)
            self.wr(ops[0], v, True)
            return None
        if mn in ("movz", "movn", "movk"):
            raise ExecError("unmodelled instruction " + mn)
        # ---- compare / test
        if mn in ("cmp", "cmn"):
            a, w = self.rd(ops[0], True)
            b = self.op2(ops[1:], w)
            self.set_addsub(a, b, mn == "cmp", w)
            return None
        if mn == "tst":
            a, w = self.rd(ops[0])
            b = self.op2(ops[1:], w)
            if isinstance(a, int) and isinstance(b, int):
                self.set_nz(a & b, w)
            else:
                self.flags = "computed from data"
            return None
        # ---- logic
        base, setflags = mn, False
        if mn in ("ands", "bics", "adds", "subs"):
            base, setflags = mn[:-1], True
        if base in LOGIC:
            dn, w = self.parse_reg(ops[0], base in ("and", "orr", "eor") and not setflags)
            a, aw = self.rd(ops[1])
            if aw != w:
                raise ExecError("register widths differ")
            b = self.op2(ops[2:], w)
            cop, inv = LOGIC[base]
            mk = M64 if w == 64 else M32
            if isinstance(a, int) and isinstance(b, int):
                bb = ~b & mk if inv else b
                r = {"^": a ^ bb, "&": a & bb, "|": a | bb}[cop] & mk
            else:
                ea, eb = self.cexpr(a), self.cexpr(b)
                r = self.tmp("%s %s %s%s" % (ea, cop, "~" if inv else "", eb))
                if inv and w == 32:
                    r = self.mask(r, 32)
            self.wr(ops[0], r, True)
            if setflags:
                self.set_nz(r, w)
            return None
        if base in ("add", "sub"):
            dn, w = self.parse_reg(ops[0], not setflags)
            a, aw = self.rd(ops[1], True)
            if aw != w:
                raise ExecError("register widths differ")
            b = self.op2(ops[2:], w)
            if setflags:
                self.set_addsub(a, b, base == "sub", w)
            mk = M64 if w == 64 else M32
            if isinstance(a, (Ptr, Lbl)) and isinstance(b, int) and w == 64:
                d = _sx(b, 64)
                d = d if base == "add" else -d
                r = Ptr(a.region, a.off + d) if isinstance(a, Ptr) else Lbl(a.name, a.off + d)
            elif base == "add" and isinstance(a, int) and isinstance(b, Ptr) and w == 64:
                r = Ptr(b.region, b.off + _sx(a, 64))
            elif base == "add" and isinstance(a, LblDiff) and isinstance(b, Lbl) and a.b == b.name and b.off == 0:
                r = Lbl(a.a, 0)
            elif base == "add" and isinstance(b, LblDiff) and isinstance(a, Lbl) and b.b == a.name and a.off == 0:
                r = Lbl(b.a, 0)
            elif isinstance(a, int) and isinstance(b, int):
                r = (a + b if base == "add" else a - b) & mk
            else:
                r = self.tmp("%s %s %s" % (self.cexpr(a), "+" if base == "add" else "-", self.cexpr(b)))
                r = self.mask(r, w)
            self.wr(ops[0], r, True)
            return None
        if mn == "neg":
            dn, w = self.parse_reg(ops[0])
            b = self.op2(ops[1:], w)
            if isinstance(b, int):
                r = -b & (M64 if w == 64 else M32)
            else:
                r = self.mask(self.tmp("UINT64_C(0) - %s" % self.cexpr(b)), w)
            self.wr(ops[0], r)
            return None
        # ---- shifts
        if mn in SHIFTS:
            dn, w = self.parse_reg(ops[0])
            v, vw = self.rd(ops[1])
            if vw != w:
                raise ExecError("register widths differ")
            if not isinstance(v, (int, Sym)):
                self.cexpr(v)
            if self.isimm(ops[2]):
                n = self.imm(ops[2])
            else:
                n, nw = self.rd(ops[2])
                if not isinstance(n, int):
                    raise ExecError("shift/rotate amount depends on data (register %s)" % ops[2])
                n %= w
            self.wr(ops[0], self.shift(mn, v, n, w))
            return None
        raise ExecError("unmodelled instruction " + mn)

    def finish(self):
        lines = []
        regs = sorted(self.regions)
        lines.append("static void %s(%s)" % (self.out_name, ", ".join("uint8_t *%s" % r for r in regs) or "void"))
        lines.append("{")
        for region, off, size, cn in self.inputs:
            lines.append("    uint64_t %s = A64_LD%d(%s + %d);" % (cn, size * 8, region, off))
        lines += self.out
        for (region, off), size in sorted(self.stores.items()):
            sz, v = self.mem[(region, off)]
            lines.append("    A64_ST%d(%s + %d, %s);" % (size * 8, region, off, self.cexpr(v)))
        lines.append("}")
        return "\n".join(lines)


PRELUDE = """#include <stdint.h>
#include <string.h>
#ifndef VERIF_ASM_AARCH64_PRELUDE
#define VERIF_ASM_AARCH64_PRELUDE
/* little-endian accesses (ldr/str/ldp/stp on a little-endian AArch64 target) */
static inline uint64_t A64_LD32(const uint8_t *p) { return (uint64_t)p[0] | ((uint64_t)p[1] << 8) | ((uint64_t)p[2] << 16) | ((uint64_t)p[3] << 24); }
static inline uint64_t A64_LD64(const uint8_t *p) { return A64_LD32(p) | (A64_LD32(p + 4) << 32); }
static inline void A64_ST32(uint8_t *p, uint64_t v) { p[0] = (uint8_t)v; p[1] = (uint8_t)(v >> 8); p[2] = (uint8_t)(v >> 16); p[3] = (uint8_t)(v >> 24); }
static inline void A64_ST64(uint8_t *p, uint64_t v) { A64_ST32(p, v); A64_ST32(p + 4, v >> 32); }
#endif
"""


def translate(asm_text, fname, first_round, out_name):
    """common executor interface (see validate.py): AAPCS64, x0 = state pointer, w1 = first_round.
    AAPCS64 leaves bits 8..63 of x1 unspecified for a uint8_t argument; they are set to ones here so
    that code which forgets to zero-extend w1 takes a wrong (and therefore detected) path."""
    prog = Program(asm_text)
    x1 = (first_round & 0xff) | (M64 & ~0xff)
    m = Machine(prog, fname, out_name, {"state": 40}, {"x0": Ptr("state", 0), "x1": x1})
    body = m.run()
    return PRELUDE + body, dict(m.report, inputs=len(m.inputs), written=sorted(o for (_, o) in m.stores))
