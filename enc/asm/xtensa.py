"""Partial-evaluating symbolic executor for the Xtensa assembly file of ascon-suite
(DESIGN 3 C18): ascon-asm-xtensa.S, both ABI variants it contains --
  * windowed ABI (-D__XTENSA_WINDOWED_ABI__): `entry sp, N` ... `retw.n`;
  * call0 ABI (default):                      `addi sp, sp, -N` ... `ret.n`.
The variant is recognised from the code itself (first executed instruction is `entry`).
The state is five 64-bit words kept as pairs of little-endian 32-bit words (low word at
the lower address): layout "sliced64-le".  64-bit rotations are done with funnel shifts
(ssai n ; src ar, as, at  ==  low 32 bits of (as:at) >> n).

Same method as x86_64.py: control flow and addresses are evaluated concretely from the
public arguments (a2 = state pointer, a3 = first_round); data stays symbolic and is
emitted as straight-line SSA C over uint32_t temporaries.  Enforced on the executed path:
  * ABI, call0   : at `ret` a0 (return address), a1 (sp) and a12-a15 hold their entry values;
    ABI, windowed: `entry` is the first instruction, operates on a1 with a multiple of 8;
                   at `retw` a0 holds its entry value (retw takes the return address and the
                   window decrement from it) and a1 is the value `entry` gave it (the window
                   underflow handler locates the caller's save area relative to it); the
                   caller's registers, including its sp, are protected by the window rotation;
  * footprint : every load/store hits the 40-byte state object (inside its size, naturally
                aligned) or the function's own frame, between the current sp and the entry sp;
  * secret independence : branch operands, SAR (shift amount register) sources and addresses
                must be concrete; a symbolic (data) value there is refused;
  * encodability : immediates are checked against the instruction fields (b4const tables,
                narrow-form ranges); unmodelled instructions are refused.
"""
import re

from x86_64 import ExecError, Sym, Ptr, PRELUDE
from x86_64 import preprocess            # gcc -E -P -x assembler-with-cpp  (re-exported: module interface)

LAYOUT = "sliced64-le"
TARGET_DEFINES = {
    "ascon-asm-xtensa.S": ["-D__XTENSA__", "-U__x86_64__", "-U__x86_64"],                       # call0 ABI
    "ascon-asm-xtensa.S:windowed": ["-D__XTENSA__", "-D__XTENSA_WINDOWED_ABI__", "-U__x86_64__", "-U__x86_64"],
}

MASK32 = 0xffffffff
NREG = 16
CALL0_CALLEE_SAVED = [12, 13, 14, 15]
B4CONST = [-1, 1, 2, 3, 4, 5, 6, 7, 8, 10, 12, 16, 32, 64, 128, 256]
B4CONSTU = [32768, 65536, 2, 3, 4, 5, 6, 7, 8, 10, 12, 16, 32, 64, 128, 256]


class Entry:
    """the (unknown, non-data) value a register held at function entry"""
    __slots__ = ("name",)

    def __init__(self, name):
        self.name = name


class Program:
    def __init__(self, text):
        self.ins = []        # (mnemonic, [operands], source line)
        self.labels = {}     # label -> instruction index
        for raw in text.splitlines():
            line = raw.split("#")[0].split("//")[0]
            for stmt in line.split(";"):
                stmt = stmt.strip()
                while True:
                    m = re.match(r"^([.\w$]+):\s*(.*)$", stmt)
                    if not m:
                        break
                    self.labels[m.group(1)] = len(self.ins)
                    stmt = m.group(2).strip()
                if not stmt or stmt.startswith("."):
                    continue          # directives carry no semantics here (no literal pools are used by these files)
                parts = stmt.split(None, 1)
                ops = [o.strip() for o in parts[1].split(",")] if len(parts) > 1 else []
                self.ins.append((parts[0].lower(), ops, raw.strip()))


def s32(v):
    v &= MASK32
    return v - (1 << 32) if v & 0x80000000 else v


class Machine:
    def __init__(self, prog, fname, out_name, regions, args, max_steps=400000):
        self.p = prog
        self.fname = fname
        self.out_name = out_name
        self.out = []
        self.ntmp = 0
        self.regions = dict(regions)
        self.mem = {}         # (region, off) -> (size, value)
        self.reg = [Entry("a%d" % i) for i in range(NREG)]
        self.reg[1] = Ptr("stack", 0)
        for k, v in args.items():
            self.reg[self.regno(k)] = v
        self.sar = None       # shift amount register: concrete int once set
        self.windowed = None  # decided by the first executed instruction
        self.frame = 0        # N of `entry sp, N`
        self.min_sp = 0
        self.max_steps = max_steps
        self.inputs = []
        self.stores = {}
        self.nexec = 0
        self.report = {"loads": 0, "stores": 0, "max_frame": 0, "steps": 0}

    # ---- values
    def tmp(self, expr):
        n = "t%d" % self.ntmp
        self.ntmp += 1
        self.out.append("    uint32_t %s = %s;" % (n, expr))
        return Sym(n)

    def cexpr(self, v):
        if isinstance(v, int):
            return "UINT32_C(0x%x)" % (v & MASK32)
        if isinstance(v, Sym):
            return v.e
        if isinstance(v, Entry):
            raise ExecError("entry value of register %s (not an argument) used as data" % v.name)
        raise ExecError("value of kind %s used as data" % type(v).__name__)

    @staticmethod
    def regno(name):
        name = name.strip().lower()
        if name == "sp":
            return 1
        m = re.match(r"^a(\d+)$", name)
        if not m or int(m.group(1)) >= NREG:
            raise ExecError("unknown register " + name)
        return int(m.group(1))

    def rd(self, name):
        return self.reg[self.regno(name)]

    def wr(self, name, v):
        n = self.regno(name)
        if isinstance(v, int):
            v &= MASK32
        if n == 1:
            if not (isinstance(v, Ptr) and v.region == "stack"):
                raise ExecError("stack pointer set to something that is not a stack address")
            if v.off > 0:
                raise ExecError("stack pointer moved above its entry value")
            if self.windowed:
                raise ExecError("stack pointer changed after `entry` (movsp is not modelled)")
            self.min_sp = min(self.min_sp, v.off)
        self.reg[n] = v

    def imm(self, s, lo=None, hi=None, what="immediate"):
        try:
            v = int(s.strip(), 0)
        except ValueError:
            raise ExecError("%s operand is not a number: %s" % (what, s))
        if lo is not None and not lo <= v <= hi:
            raise ExecError("%s %d outside the encodable range %d..%d" % (what, v, lo, hi))
        return v

    # ---- memory
    def addr(self, base, off, narrow):
        d = self.imm(off, 0, 60 if narrow else 1020, "load/store offset")
        if d % 4:
            raise ExecError("load/store offset %d is not a multiple of 4" % d)
        b = self.rd(base)
        if isinstance(b, Ptr):
            return Ptr(b.region, b.off + d)
        raise ExecError("base register %s is not a pointer (kind %s): address depends on data or is wild" % (base, type(b).__name__))

    def check_access(self, a, size, write):
        what = "store" if write else "load"
        if a.off % size:
            raise ExecError("misaligned %d-byte %s at %s%+d" % (size, what, a.region, a.off))
        if a.region == "stack":
            sp = self.reg[1]
            if a.off + size > 0:
                raise ExecError("%s at or above the entry stack pointer (caller's frame, stack%+d)" % (what, a.off))
            if a.off < sp.off:
                raise ExecError("%s below the stack pointer (stack%+d, sp at stack%+d)" % (what, a.off, sp.off))
            return
        if a.region not in self.regions:
            raise ExecError("access to unknown region " + a.region)
        if a.off < 0 or a.off + size > self.regions[a.region]:
            raise ExecError("%s outside object '%s' (offset %d size %d, object size %d)" %
                            (what, a.region, a.off, size, self.regions[a.region]))

    def load(self, a, size=4):
        self.check_access(a, size, False)
        self.report["loads"] += 1
        key = (a.region, a.off)
        if key in self.mem:
            return self.mem[key][1]
        if a.region == "stack":
            raise ExecError("load of uninitialised stack slot stack%+d" % a.off)
        cn = "in_%s_%d" % (a.region, a.off)
        self.inputs.append((a.region, a.off, size, cn))
        v = Sym(cn)
        self.mem[key] = (size, v)
        return v

    def store(self, a, v, size=4):
        self.check_access(a, size, True)
        self.report["stores"] += 1
        if a.region != "stack":
            if not isinstance(v, (int, Sym)):
                raise ExecError("non-data value (%s) stored into object '%s'" % (type(v).__name__, a.region))
            self.stores[(a.region, a.off)] = size
        self.mem[(a.region, a.off)] = (size, v)

    # ---- arithmetic
    def alu(self, op, a, b):
        if isinstance(a, int) and isinstance(b, int):
            if op == "^": r = a ^ b
            elif op == "&": r = a & b
            elif op == "|": r = a | b
            elif op == "+": r = a + b
            else: r = a - b
            return r & MASK32
        if isinstance(a, Ptr) and isinstance(b, int) and op in "+-":
            d = s32(b)
            return Ptr(a.region, a.off + d if op == "+" else a.off - d)
        if isinstance(b, Ptr) and isinstance(a, int) and op == "+":
            return Ptr(b.region, b.off + s32(a))
        if isinstance(a, Ptr) and isinstance(b, Ptr) and a.region == b.region and op == "-":
            return (a.off - b.off) & MASK32
        if isinstance(a, Ptr) or isinstance(b, Ptr):
            raise ExecError("pointer combined with a data value or by an operation other than +/- (address would depend on data)")
        return self.tmp("%s %s %s" % (self.cexpr(a), op, self.cexpr(b)))

    def funnel(self, hi, lo, n):
        """low 32 bits of (hi:lo) >> n, 0 <= n <= 32"""
        if n == 0:
            return lo
        if n == 32:
            return hi
        if isinstance(hi, int) and isinstance(lo, int):
            return (((hi << 32) | lo) >> n) & MASK32
        if isinstance(hi, int) and hi == 0:
            return self.tmp("%s >> %d" % (self.cexpr(lo), n))
        if isinstance(lo, int) and lo == 0:
            return self.tmp("%s << %d" % (self.cexpr(hi), 32 - n))
        return self.tmp("(%s >> %d) | (%s << %d)" % (self.cexpr(lo), n, self.cexpr(hi), 32 - n))

    def need_sar(self):
        if self.sar is None:
            raise ExecError("SAR used before it was set (or set from a data value)")
        return self.sar

    # ---- main loop
    def run(self):
        if self.fname not in self.p.labels:
            raise ExecError("function %s not found" % self.fname)
        pc = self.p.labels[self.fname]
        steps = 0
        while True:
            steps += 1
            if steps > self.max_steps:
                raise ExecError("step limit")
            if pc >= len(self.p.ins):
                raise ExecError("fell off the end of the text")
            mn, ops, src = self.p.ins[pc]
            try:
                if steps == 1:
                    self.windowed = (mn == "entry")
                r = self.step(mn, ops)
            except ExecError as e:
                raise ExecError("%s  [at `%s`]" % (e, src))
            if r == "ret":
                break
            pc = r if isinstance(r, int) else pc + 1
        self.report["steps"] = steps
        self.report["max_frame"] = -self.min_sp
        self.report["abi"] = "windowed" if self.windowed else "call0"
        return self.finish()

    def target(self, name):
        name = name.strip()
        if name not in self.p.labels:
            raise ExecError("jump to unknown label " + name)
        return self.p.labels[name]

    def need(self, ops, n):
        if len(ops) != n:
            raise ExecError("expected %d operands, got %d" % (n, len(ops)))

    def concrete(self, v, what="conditional branch"):
        if not isinstance(v, int):
            raise ExecError("%s on a value that is not concrete (depends on data)" % what)
        return v & MASK32

    def step(self, mn, ops):
        narrow = mn.endswith(".n")
        base = mn[:-2] if narrow else mn
        if base == "entry":
            self.need(ops, 2)
            if self.reg[1].off != 0 or self.frame or self.windowed is not True:
                raise ExecError("`entry` is not the first instruction of the function")
            if self.regno(ops[0]) != 1:
                raise ExecError("`entry` on a register other than a1/sp")
            n = self.imm(ops[1], 0, 32760, "entry frame size")
            if n % 8:
                raise ExecError("entry frame size %d is not a multiple of 8" % n)
            self.frame = n
            self.reg[1] = Ptr("stack", -n)
            self.min_sp = min(self.min_sp, -n)
            return None
        if base == "retw":
            self.need(ops, 0)
            if not self.windowed:
                raise ExecError("ABI: retw in a function that did not execute `entry`")
            v = self.reg[0]
            if not (isinstance(v, Entry) and v.name == "a0"):
                raise ExecError("ABI: a0 (return address / window size) does not hold its entry value at retw")
            sp = self.reg[1]
            if not isinstance(sp, Ptr) or sp.region != "stack" or sp.off != -self.frame:
                raise ExecError("ABI: a1 at retw differs from the value set by `entry`")
            return "ret"
        if base == "ret":
            self.need(ops, 0)
            if self.windowed:
                raise ExecError("ABI: plain ret in a function that executed `entry` (window not restored)")
            sp = self.reg[1]
            if not isinstance(sp, Ptr) or sp.region != "stack" or sp.off != 0:
                raise ExecError("ABI: stack pointer at return differs from its entry value")
            for n in [0] + CALL0_CALLEE_SAVED:
                v = self.reg[n]
                if not (isinstance(v, Entry) and v.name == "a%d" % n):
                    raise ExecError("ABI: register a%d does not hold its entry value at return" % n)
            return "ret"
        if base == "nop":
            return None
        if mn == "j":
            self.need(ops, 1)
            return self.target(ops[0])
        if mn in ("beq", "bne", "blt", "bge", "bltu", "bgeu"):
            self.need(ops, 3)
            a, b = self.concrete(self.rd(ops[0])), self.concrete(self.rd(ops[1]))
            return self.branch(mn, a, b, ops[2])
        if mn in ("beqi", "bnei", "blti", "bgei", "bltui", "bgeui"):
            self.need(ops, 3)
            a = self.concrete(self.rd(ops[0]))
            c = self.imm(ops[1])
            table = B4CONSTU if mn in ("bltui", "bgeui") else B4CONST
            if c not in table:
                raise ExecError("constant %d of %s is not in the encodable set %s" % (c, mn, table))
            return self.branch(mn[:-1] if not mn.endswith("ui") else mn[:-2] + "u", a, c & MASK32, ops[2])
        if base in ("beqz", "bnez", "bltz", "bgez") and (not narrow or base in ("beqz", "bnez")):
            self.need(ops, 2)
            a = self.concrete(self.rd(ops[0]))
            return self.branch({"beqz": "beq", "bnez": "bne", "bltz": "blt", "bgez": "bge"}[base], a, 0, ops[1])
        if base == "l32i":
            self.need(ops, 3)
            self.wr(ops[0], self.load(self.addr(ops[1], ops[2], narrow)))
            return None
        if base == "s32i":
            self.need(ops, 3)
            self.store(self.addr(ops[1], ops[2], narrow), self.rd(ops[0]))
            return None
        if base == "movi":
            self.need(ops, 2)
            v = self.imm(ops[1], -32 if narrow else -2048, 95 if narrow else 2047, "movi constant")
            self.wr(ops[0], v & MASK32)
            return None
        if base == "mov":
            self.need(ops, 2)
            self.wr(ops[0], self.rd(ops[1]))
            return None
        if mn in ("xor", "and", "or", "sub") or base == "add":
            self.need(ops, 3)
            cop = {"xor": "^", "and": "&", "or": "|", "sub": "-", "add": "+"}[base]
            self.wr(ops[0], self.alu(cop, self.rd(ops[1]), self.rd(ops[2])))
            return None
        if base == "addi":
            self.need(ops, 3)
            if narrow:
                c = self.imm(ops[2], -1, 15, "addi.n constant")
                if c == 0:
                    raise ExecError("addi.n cannot encode 0")
            else:
                c = self.imm(ops[2], -128, 127, "addi constant")
            self.wr(ops[0], self.alu("+", self.rd(ops[1]), c & MASK32))
            return None
        if mn == "addmi":
            self.need(ops, 3)
            c = self.imm(ops[2], -32768, 32512, "addmi constant")
            if c % 256:
                raise ExecError("addmi constant is not a multiple of 256")
            self.wr(ops[0], self.alu("+", self.rd(ops[1]), c & MASK32))
            return None
        if mn == "neg":
            self.need(ops, 2)
            self.wr(ops[0], self.alu("-", 0, self.rd(ops[1])))
            return None
        if mn == "ssai":
            self.need(ops, 1)
            self.sar = self.imm(ops[0], 0, 31, "ssai amount")
            return None
        if mn in ("ssr", "ssl"):
            self.need(ops, 1)
            v = self.rd(ops[0])
            if not isinstance(v, int):
                self.sar = None
                raise ExecError("shift amount register loaded from a value that is not concrete (depends on data)")
            self.sar = (v & 31) if mn == "ssr" else 32 - (v & 31)
            return None
        if mn == "src":
            self.need(ops, 3)
            self.wr(ops[0], self.funnel(self.rd(ops[1]), self.rd(ops[2]), self.need_sar()))
            return None
        if mn == "srl":
            self.need(ops, 2)
            n = self.need_sar()
            if n > 31:
                raise ExecError("srl with SAR > 31 is undefined")
            self.wr(ops[0], self.funnel(0, self.rd(ops[1]), n))
            return None
        if mn == "sll":
            self.need(ops, 2)
            self.wr(ops[0], self.funnel(self.rd(ops[1]), 0, self.need_sar()))
            return None
        if mn == "slli":
            self.need(ops, 3)
            n = self.imm(ops[2], 1, 31, "slli amount")
            self.wr(ops[0], self.funnel(self.rd(ops[1]), 0, 32 - n))
            return None
        if mn == "srli":
            self.need(ops, 3)
            n = self.imm(ops[2], 0, 15, "srli amount")
            self.wr(ops[0], self.funnel(0, self.rd(ops[1]), n))
            return None
        if mn == "extui":
            self.need(ops, 4)
            sh = self.imm(ops[2], 0, 31, "extui shift")
            nb = self.imm(ops[3], 1, 16, "extui width")
            v = self.funnel(0, self.rd(ops[1]), sh)
            self.wr(ops[0], self.alu("&", v, (1 << nb) - 1))
            return None
        raise ExecError("unmodelled instruction " + mn)

    def branch(self, kind, a, b, label):
        cond = {"beq": a == b, "bne": a != b, "blt": s32(a) < s32(b), "bge": s32(a) >= s32(b),
                "bltu": a < b, "bgeu": a >= b}[kind]
        tgt = self.target(label)
        return tgt if cond else None

    def finish(self):
        lines = []
        regs = sorted(self.regions)
        lines.append("static void %s(%s)" % (self.out_name, ", ".join("uint8_t *%s" % r for r in regs) or "void"))
        lines.append("{")
        for region, off, size, cn in self.inputs:
            lines.append("    uint32_t %s = (uint32_t)VLD%d(%s + %d);" % (cn, size * 8, region, off))
        lines += self.out
        for (region, off), size in sorted(self.stores.items()):
            _, v = self.mem[(region, off)]
            lines.append("    VST%d(%s + %d, %s);" % (size * 8, region, off, self.cexpr(v)))
        lines.append("}")
        return "\n".join(lines)


def translate(asm_text, fname, first_round, out_name):
    """common executor interface (see validate.py): a2 = state pointer, a3 = first_round
    (the same argument registers in the call0 ABI and, after `entry`, in the windowed ABI)"""
    prog = Program(asm_text)
    m = Machine(prog, fname, out_name, {"state": 40}, {"a2": Ptr("state", 0), "a3": first_round})
    body = m.run()
    rep = dict(m.report, inputs=len(m.inputs), written=sorted(o for (_, o) in m.stores))
    return PRELUDE + body, rep
