#!/usr/bin/env python3
"""LLVM-14 IR (textual, typed pointers) -> C translator for CBMC  (DESIGN 2.6, C11/C13/C17).

All memory is byte-addressed: every pointer is `uint8_t *`, every load/store is a
fixed-width access through the helpers VLDn/VSTn, allocas are aligned byte arrays,
globals are byte arrays with serialised initialisers.  Two emission modes:

  single : one C function per IR function (functional claims on optimised IR / C++)
  pair   : product program for constant-time checking (C11): every SSA value exists
           twice (_a/_b); control flow follows copy a; at every conditional branch,
           switch, load/store address and variable-latency operand the two copies
           must agree (LEAK assertion) -- a secret-dependent branch or address shows
           up as a violated assertion with two diverging secrets.

Supported: the opcodes that clang -O1/-O3 (no vectorisation, no exceptions) emits for
this code base; anything else raises Unsupported with the offending line.
"""
import re
import sys


class Unsupported(Exception):
    pass


# ----------------------------------------------------------------------------- types

class Ty:
    pass


class IntTy(Ty):
    def __init__(self, bits):
        self.bits = bits

    def __repr__(self):
        return "i%d" % self.bits


class PtrTy(Ty):
    def __init__(self, to):
        self.to = to

    def __repr__(self):
        return "%r*" % (self.to,)


class ArrTy(Ty):
    def __init__(self, n, el):
        self.n, self.el = n, el

    def __repr__(self):
        return "[%d x %r]" % (self.n, self.el)


class StructTy(Ty):
    def __init__(self, fields, packed=False):
        self.fields, self.packed = fields, packed

    def __repr__(self):
        return "{%s}" % ", ".join(map(repr, self.fields))


class NamedTy(Ty):
    def __init__(self, name):
        self.name = name

    def __repr__(self):
        return "%" + self.name


class VoidTy(Ty):
    def __repr__(self):
        return "void"


class FnTy(Ty):
    def __init__(self, ret, params, vararg=False):
        self.ret, self.params, self.vararg = ret, params, vararg

    def __repr__(self):
        return "fn"


class OpaqueTy(Ty):
    def __repr__(self):
        return "opaque"


class Module:
    def __init__(self):
        self.types = {}       # name -> Ty
        self.globals = {}     # name -> dict(ty, init(str or None), const, external)
        self.funcs = {}       # name -> Function
        self.decls = {}       # name -> (ret Ty, [param Ty], vararg)

    def resolve(self, t):
        while isinstance(t, NamedTy):
            if t.name not in self.types:
                raise Unsupported("unknown type %" + t.name)
            t = self.types[t.name]
        return t

    def size_align(self, t):
        t = self.resolve(t)
        if isinstance(t, IntTy):
            n = (t.bits + 7) // 8
            s = 1
            while s < n:
                s *= 2
            return s, min(s, 8) if s <= 8 else 16
        if isinstance(t, PtrTy) or isinstance(t, FnTy):
            return 8, 8
        if isinstance(t, ArrTy):
            s, a = self.size_align(t.el)
            return s * t.n, a
        if isinstance(t, StructTy):
            off, al = 0, 1
            for f in t.fields:
                s, a = self.size_align(f)
                if t.packed:
                    a = 1
                off = (off + a - 1) // a * a
                off += s
                al = max(al, a)
            off = (off + al - 1) // al * al
            return off, al
        if isinstance(t, OpaqueTy):
            return 0, 1
        raise Unsupported("size of %r" % (t,))

    def field_offset(self, t, idx):
        t = self.resolve(t)
        off = 0
        for i, f in enumerate(t.fields):
            s, a = self.size_align(f)
            if t.packed:
                a = 1
            off = (off + a - 1) // a * a
            if i == idx:
                return off, f
            off += s
        raise Unsupported("field index")


# ----------------------------------------------------------------------------- lexer helpers

def split_top(s, sep=","):
    """split at separators that are not nested in () [] {} <> or quotes"""
    out, depth, cur, i, q = [], 0, "", 0, False
    while i < len(s):
        c = s[i]
        if q:
            cur += c
            if c == '"':
                q = False
        elif c == '"':
            q = True
            cur += c
        elif c in "([{<":
            depth += 1
            cur += c
        elif c in ")]}>":
            depth -= 1
            cur += c
        elif c == sep and depth == 0:
            out.append(cur.strip())
            cur = ""
        else:
            cur += c
        i += 1
    if cur.strip():
        out.append(cur.strip())
    return out


class TypeParser:
    def __init__(self, s):
        self.s = s
        self.i = 0

    def ws(self):
        while self.i < len(self.s) and self.s[self.i] in " \t":
            self.i += 1

    def parse(self):
        self.ws()
        s = self.s
        if s.startswith("void", self.i):
            self.i += 4
            t = VoidTy()
        elif s[self.i] == "i" and s[self.i + 1].isdigit():
            m = re.match(r"i(\d+)", s[self.i:])
            self.i += m.end()
            t = IntTy(int(m.group(1)))
        elif s[self.i] == "%":
            m = re.match(r'%("[^"]+"|[\w.$-]+)', s[self.i:])
            self.i += m.end()
            t = NamedTy(m.group(1).strip('"'))
        elif s[self.i] == "[":
            m = re.match(r"\[\s*(\d+)\s+x\s+", s[self.i:])
            self.i += m.end()
            el = self.parse()
            self.ws()
            assert s[self.i] == "]", s[self.i:]
            self.i += 1
            t = ArrTy(int(m.group(1)), el)
        elif s.startswith("<{", self.i) or s[self.i] == "{":
            packed = s[self.i] == "<"
            self.i += 2 if packed else 1
            fields = []
            self.ws()
            while s[self.i] != "}":
                fields.append(self.parse())
                self.ws()
                if s[self.i] == ",":
                    self.i += 1
                self.ws()
            self.i += 1
            if packed:
                assert s[self.i] == ">"
                self.i += 1
            t = StructTy(fields, packed)
        elif s.startswith("opaque", self.i):
            self.i += 6
            t = OpaqueTy()
        elif s.startswith("...", self.i):
            self.i += 3
            return "..."
        elif s[self.i] == "<":
            raise Unsupported("vector type in: " + s)
        elif re.match(r"(float|double|half|x86_fp80|fp128)\b", s[self.i:]):
            raise Unsupported("floating point type in: " + s)
        elif s.startswith("ptr", self.i) or s.startswith("label", self.i) or s.startswith("metadata", self.i):
            raise Unsupported("type token in: " + s[self.i:self.i + 30])
        else:
            raise Unsupported("cannot parse type at: " + s[self.i:self.i + 40])
        # suffixes: pointers and function types
        while True:
            self.ws()
            if self.i < len(s) and s[self.i] == "*":
                self.i += 1
                t = PtrTy(t)
            elif self.i < len(s) and s[self.i] == "(":
                self.i += 1
                params, va = [], False
                self.ws()
                while s[self.i] != ")":
                    p = self.parse()
                    if p == "...":
                        va = True
                    else:
                        params.append(p)
                    self.ws()
                    if s[self.i] == ",":
                        self.i += 1
                    self.ws()
                self.i += 1
                t = FnTy(t, params, va)
            else:
                break
        return t


def parse_type_prefix(s):
    """parse a type at the start of s; return (Ty, rest)"""
    p = TypeParser(s)
    t = p.parse()
    return t, s[p.i:].strip()


PARAM_ATTRS = re.compile(r"\b(noundef|nocapture|readonly|readnone|writeonly|nonnull|noalias|signext|zeroext|returned|immarg|nofree|inreg|"
                         r"nest|swiftself|nsw|nuw|exact|inbounds|volatile|tail|musttail|notail|fastcc|ccc|dso_local|local_unnamed_addr|unnamed_addr|"
                         r"noinline|nounwind|internal|private|linkonce_odr|weak_odr|available_externally|hidden|weak|external|common|comdat)\b")
PAREN_ATTRS = re.compile(r"\b(align \d+|dereferenceable\(\d+\)|dereferenceable_or_null\(\d+\)|sret\([^)]*\)|byval\([^)]*\)|comdat\([^)]*\)|align\(\d+\))")


def strip_attrs(s):
    prev = None
    while prev != s:
        prev = s
        s = PAREN_ATTRS.sub(" ", s)
        s = PARAM_ATTRS.sub(" ", s)
    return re.sub(r"\s+", " ", s).strip()


# ----------------------------------------------------------------------------- IR containers

class Function:
    def __init__(self, name, ret, params):
        self.name, self.ret, self.params = name, ret, params   # params: [(Ty, name)]
        self.blocks = []          # [(label, [instr line])]


def parse_module(text):
    m = Module()
    lines = text.splitlines()
    i = 0
    cur = None
    while i < len(lines):
        ln = lines[i]
        i += 1
        s = ln.strip()
        if not s or s.startswith(";") or s.startswith("source_filename") or s.startswith("target ") or s.startswith("attributes ") or s.startswith("!") or s.startswith("$"):
            continue
        if cur is not None:
            if s == "}":
                cur = None
                continue
            mlab = re.match(r'^("[^"]+"|[\w.$-]+):', s)
            if mlab:
                cur.blocks.append((mlab.group(1).strip('"'), []))
                continue
            # multi-line switch
            if s.startswith("switch ") and not s.rstrip().endswith("]"):
                while not lines[i - 1].strip().endswith("]"):
                    s += " " + lines[i].strip()
                    i += 1
            s = re.sub(r",\s*![\w.]+ ![\w.]+", "", s)       # metadata attachments
            s = re.sub(r",\s*!\w+ !\{[^}]*\}", "", s)
            s = re.sub(r"\s+#\d+\s*$", "", s)
            s = s.replace(" inrange ", " ")
            cur.blocks[-1][1].append(s)
            continue
        mt = re.match(r'^%("[^"]+"|[\w.$-]+) = type (.*)$', s)
        if mt:
            m.types[mt.group(1).strip('"')] = parse_type_prefix(mt.group(2))[0]
            continue
        if s.startswith("@"):
            mg = re.match(r'^@("[^"]+"|[\w.$-]+) = (.*)$', s)
            name = mg.group(1).strip('"')
            rest = strip_attrs(mg.group(2))
            rest = re.sub(r"^(thread_local(\([^)]*\))?\s+)", "", rest)
            if rest.startswith("alias"):
                continue
            mk = re.match(r"^(global|constant)\s+(.*)$", rest)
            if not mk:
                raise Unsupported("global: " + s)
            ty, rest2 = parse_type_prefix(mk.group(2))
            rest2 = re.sub(r",\s*(section|comdat|align).*$", "", rest2).strip()
            rest2 = re.sub(r",?\s*align \d+$", "", rest2).strip()
            rest2 = rest2.rstrip(", ")
            m.globals[name] = {"ty": ty, "init": rest2 if rest2 else None, "const": mk.group(1) == "constant",
                               "external": " external " in " " + mg.group(2) + " " and not rest2}
            continue
        if s.startswith("declare") and re.search(r"@llvm\.experimental\.noalias", s):
            continue
        if s.startswith("declare") or s.startswith("define"):
            is_def = s.startswith("define")
            body = strip_attrs(re.sub(r"^(declare|define)\s+", "", s))
            body = re.sub(r"\s+#\d+.*$", "", body) if not is_def else body
            ret, rest = parse_type_prefix(body)
            mn = re.match(r'^@("[^"]+"|[\w.$-]+)\s*\((.*)\)(.*)$', rest)
            if not mn:
                raise Unsupported("function header: " + s)
            name = mn.group(1).strip('"')
            params, va = [], False
            for k, p in enumerate(split_top(mn.group(2))):
                if p == "...":
                    va = True
                    continue
                pt, prest = parse_type_prefix(p)
                pn = prest.strip()
                pn = pn[1:] if pn.startswith("%") else ("arg%d" % k)
                params.append((pt, pn.strip('"')))
            if is_def:
                f = Function(name, ret, params)
                m.funcs[name] = f
                cur = f
                # implicit first block label: next unnamed value number
                f.blocks.append(("entry", []))
            else:
                m.decls[name] = (ret, [p[0] for p in params], va)
            continue
        raise Unsupported("top-level line: " + s)
    return m


# ----------------------------------------------------------------------------- emitter

def cid(name):
    return re.sub(r"[^A-Za-z0-9_]", "_", name)


def ctype(m, t):
    t = m.resolve(t)
    if isinstance(t, VoidTy):
        return "void"
    if isinstance(t, IntTy):
        if t.bits <= 8:
            return "uint8_t"
        if t.bits <= 16:
            return "uint16_t"
        if t.bits <= 32:
            return "uint32_t"
        if t.bits <= 64:
            return "uint64_t"
        raise Unsupported("integer wider than 64 bits")
    if isinstance(t, (PtrTy, FnTy)):
        return "uint8_t *"
    raise Unsupported("first-class aggregate value of type %r" % (t,))


def sctype(bits):
    return "int8_t" if bits <= 8 else "int16_t" if bits <= 16 else "int32_t" if bits <= 32 else "int64_t"


def mask(bits):
    return None if bits in (8, 16, 32, 64) else "UINT64_C(0x%x)" % ((1 << bits) - 1)


class Emitter:
    def __init__(self, mod, prefix="ir_", pair=False, extern_prefix="", keep_names=()):
        self.m = mod
        self.prefix = prefix
        self.pair = pair
        self.sfx = ["_a", "_b"] if pair else [""]
        self.out = []
        self.extern_prefix = extern_prefix
        self.keep_names = set(keep_names)
        self.indirect_protos = set()

    # --- names
    def fname(self, name):
        if name in self.m.funcs:
            return self.prefix + cid(name) + ("__pair" if self.pair else "")
        return self.extern_prefix + cid(name) + ("__pair" if self.pair and name not in INTRINSIC_FREE else "")

    def gname(self, name):
        return "g_" + cid(name)

    # --- operands
    def const_expr(self, s, sfx):
        """value expression for an operand token (without its type)"""
        s = s.strip()
        if s.startswith("%"):
            return "v_" + cid(s[1:].strip('"')) + sfx
        if s.startswith("@"):
            nm = s[1:].strip('"')
            if nm in self.m.globals:
                return "((uint8_t *)%s)" % self.gname(nm)
            if nm in LIBC_MAP or nm.startswith("llvm."):
                return "((uint8_t *)&verif_unknown_function)"
            return "((uint8_t *)&%s)" % self.fname(nm)
        if re.match(r"^-?\d+$", s):
            v = int(s)
            return "UINT64_C(0x%x)" % (v & ((1 << 64) - 1))
        if s in ("null", "undef", "poison", "zeroinitializer", "false"):
            return "0"
        if s == "true":
            return "1"
        mce = re.match(r"^(getelementptr|bitcast|ptrtoint|inttoptr|addrspacecast)\s*(inbounds\s*)?\((.*)\)$", s)
        if mce:
            op, inner = mce.group(1), mce.group(3)
            if op == "getelementptr":
                parts = split_top(inner)
                base_ty = parse_type_prefix(parts[0])[0]
                pt, pv = parse_type_prefix(parts[1])
                expr = self.const_expr(pv, sfx)
                return self.gep_expr(base_ty, expr, [parse_type_prefix(p) for p in parts[2:]], sfx)
            ty, rest = parse_type_prefix(inner)
            mv = re.match(r"^(.*)\s+to\s+(.*)$", rest)
            inner_v = self.const_expr(mv.group(1), sfx)
            to_ty = parse_type_prefix(mv.group(2))[0]
            if op == "ptrtoint":
                return "((%s)(uintptr_t)%s)" % (ctype(self.m, to_ty), inner_v)
            if op == "inttoptr":
                return "((uint8_t *)(uintptr_t)%s)" % inner_v
            return inner_v
        raise Unsupported("operand: " + s)

    def typed_operand(self, s, sfx):
        ty, rest = parse_type_prefix(strip_attrs(s))
        return ty, self.const_expr(rest, sfx)

    def gep_expr(self, base_ty, expr, idxs, sfx):
        """idxs: list of (Ty, operand string)"""
        cur = base_ty
        terms = []
        const_off = 0
        for k, (ity, iv) in enumerate(idxs):
            if k == 0:
                sz = self.m.size_align(cur)[0]
            else:
                r = self.m.resolve(cur)
                if isinstance(r, StructTy):
                    if not re.match(r"^-?\d+$", iv.strip()):
                        raise Unsupported("non-constant struct index")
                    off, cur = self.m.field_offset(r, int(iv))
                    const_off += off
                    continue
                if isinstance(r, ArrTy):
                    cur = r.el
                    sz = self.m.size_align(cur)[0]
                else:
                    raise Unsupported("gep into %r" % (r,))
            iv = iv.strip()
            if re.match(r"^-?\d+$", iv):
                const_off += int(iv) * sz
            else:
                bits = self.m.resolve(ity).bits
                terms.append("((int64_t)(%s)%s) * %d" % (sctype(bits), self.const_expr(iv, sfx), sz))
        e = expr
        if const_off:
            terms.append("(int64_t)%d" % const_off)
        if terms:
            if NULL_GEP and not const_off:
                # LLVM allows a zero offset from a null pointer (empty std::vector); C pointer arithmetic on NULL is flagged by CBMC
                e = "VGEP(%s, %s)" % (expr, " + ".join(terms))
            else:
                e = "(%s + (%s))" % (expr, " + ".join(terms))
        return e

    def has_pointer(self, ty, depth=0):
        r = self.m.resolve(ty)
        if isinstance(r, (PtrTy, FnTy)):
            return True
        if isinstance(r, ArrTy):
            return self.has_pointer(r.el, depth + 1)
        if isinstance(r, StructTy) and depth < 8:
            return any(self.has_pointer(f, depth + 1) for f in r.fields)
        return False

    # --- globals
    def const_bytes(self, ty, init):
        """serialise a constant initialiser to a list of byte values, or None if it holds addresses"""
        r = self.m.resolve(ty)
        size = self.m.size_align(r)[0]
        init = init.strip()
        if init in ("zeroinitializer", "undef", "poison", "null"):
            return [0] * size
        if isinstance(r, IntTy):
            if not re.match(r"^-?\d+$", init):
                if init in ("true", "false"):
                    return [1 if init == "true" else 0]
                return None
            v = int(init) & ((1 << (8 * size)) - 1)
            return [(v >> (8 * k)) & 0xff for k in range(size)]
        if isinstance(r, ArrTy):
            if init.startswith('c"'):
                raw = init[2:init.rindex('"')]
                b, k = [], 0
                while k < len(raw):
                    if raw[k] == "\\" and raw[k + 1:k + 2] == "\\":
                        b.append(0x5c)
                        k += 2
                    elif raw[k] == "\\":
                        b.append(int(raw[k + 1:k + 3], 16))
                        k += 3
                    else:
                        b.append(ord(raw[k]))
                        k += 1
                return b + [0] * (size - len(b))
            if init.startswith("["):
                out = []
                for el in split_top(init[1:-1]):
                    ety, ev = parse_type_prefix(el)
                    eb = self.const_bytes(ety, ev)
                    if eb is None:
                        return None
                    out += eb
                return out
            return None
        if isinstance(r, StructTy):
            body = init
            if body.startswith("<{"):
                body = body[2:-2]
            elif body.startswith("{"):
                body = body[1:-1]
            else:
                return None
            out = []
            els = split_top(body)
            for k, el in enumerate(els):
                ety, ev = parse_type_prefix(el)
                off, _ = self.m.field_offset(r, k)
                out += [0] * (off - len(out))
                eb = self.const_bytes(ety, ev)
                if eb is None:
                    return None
                out += eb
            return out + [0] * (size - len(out))
        return None

    def const_words(self, ty, init):
        """flatten an initialiser whose leaves are all pointers / i64 into 8-byte word expressions"""
        r = self.m.resolve(ty)
        init = init.strip()
        if isinstance(r, (PtrTy, FnTy)):
            try:
                return ["(uint8_t *)%s" % self.const_expr(init, "")]
            except Unsupported:
                return None
        if isinstance(r, IntTy) and r.bits == 64 and re.match(r"^-?\d+$", init):
            return ["(uint8_t *)(uintptr_t)UINT64_C(0x%x)" % (int(init) & ((1 << 64) - 1))]
        if isinstance(r, ArrTy):
            if init == "zeroinitializer":
                sub = self.const_words(r.el, "zeroinitializer")
                return None if sub is None else sub * r.n
            if not init.startswith("["):
                return None
            out = []
            for el in split_top(init[1:-1]):
                ety, ev = parse_type_prefix(el)
                w = self.const_words(ety, ev)
                if w is None:
                    return None
                out += w
            return out
        if isinstance(r, StructTy):
            if init == "zeroinitializer":
                out = []
                for f in r.fields:
                    w = self.const_words(f, "zeroinitializer")
                    if w is None:
                        return None
                    out += w
                return out
            body = init[1:-1] if init.startswith("{") else None
            if body is None:
                return None
            out = []
            for el in split_top(body):
                ety, ev = parse_type_prefix(el)
                w = self.const_words(ety, ev)
                if w is None:
                    return None
                out += w
            return out
        if init in ("null", "zeroinitializer", "undef") and isinstance(r, (PtrTy, IntTy)):
            return ["(uint8_t *)0"] if (isinstance(r, PtrTy) or r.bits == 64) else None
        return None

    def emit_globals(self):
        for name, g in self.m.globals.items():
            size = max(1, self.m.size_align(g["ty"])[0]) if not isinstance(self.m.resolve(g["ty"]), OpaqueTy) else 1
            if g["init"] is None:
                self.out.append("extern uint8_t %s[];" % self.gname(name))
                continue
            b = self.const_bytes(g["ty"], g["init"])
            q = "static const" if g["const"] and b is not None else "static"
            if b is not None and not any(b) and size % 8 == 0 and self.has_pointer(g["ty"]):
                # zero-initialised object that will hold addresses: pointer-typed storage keeps them precise in CBMC
                self.out.append("static uint8_t *%s[%d];" % (self.gname(name), size // 8))
                continue
            if b is None:
                words = self.const_words(g["ty"], g["init"])
                if words is not None:
                    # pointer table (vtable etc.): an array of pointer-sized words, still addressed byte-wise
                    self.out.append("static uint8_t *%s[%d] = {%s};" % (self.gname(name), len(words), ", ".join(words)))
                else:
                    # holds addresses in a shape we do not serialise: content not modelled, object exists
                    self.out.append("static uint8_t %s[%d] __attribute__((aligned(16))); /* initialiser with addresses not modelled: %s */" %
                                    (self.gname(name), size, g["init"][:60].replace("*/", "* /")))
            else:
                self.out.append("%s uint8_t %s[%d] __attribute__((aligned(16))) = {%s};" % (q, self.gname(name), size, ",".join(map(str, b))))

    # --- functions
    def proto(self, name, ret, params, va=False):
        ps = []
        for sfx in self.sfx:
            for k, p in enumerate(params):
                pt = p[0] if isinstance(p, tuple) else p
                pn = ("v_" + cid(p[1]) + sfx) if isinstance(p, tuple) else "p%d%s" % (k, sfx)
                ps.append("%s %s" % (ctype(self.m, pt), pn))
        rt = ctype(self.m, ret)
        if self.pair and rt != "void":
            ps.append("%s *ret_b" % rt)
        return "%s %s(%s)" % (rt, self.fname(name), ", ".join(ps) if ps else "void")

    def emit(self):
        self.out.append(PRELUDE)
        gpos = len(self.out)
        for name, (ret, params, va) in self.m.decls.items():
            if name.startswith("llvm.") or name in self.m.funcs:
                continue
            if name in LIBC_MAP:
                continue
            try:
                self.out.append(self.proto(name, ret, params, va) + ";")
            except Unsupported as e:
                self.out.append("/* declaration of %s not translatable: %s */" % (name, e))
        for name, f in self.m.funcs.items():
            self.out.append(self.proto(name, f.ret, f.params) + ";")
        self.emit_globals()
        self.skipped = {}
        for name, f in self.m.funcs.items():
            mark = len(self.out)
            try:
                self.emit_function(f)
            except Unsupported as e:
                # the function stays callable but reaching it is an (inconclusive) failure
                del self.out[mark:]
                self.skipped[name] = str(e)
                self.out.append("/* NOT TRANSLATED: %s -- %s */" % (name, str(e).replace("*/", "* /")[:200]))
                self.out.append(self.proto(name, f.ret, f.params) + "\n{\n    VUNTRANSLATED();\n" +
                                ("" if ctype(self.m, f.ret) == "void" else "    return 0;\n") + "}")
        if self.indirect_protos:
            self.out[gpos:gpos] = ["/* environment pair functions for calls through caller-supplied pointers */"] + sorted(self.indirect_protos)
        return "\n".join(self.out) + "\n"

    def emit_function(self, f):
        self.cur = f
        body = []
        decls = {}       # var -> ctype
        allocas = []
        # number the implicit entry label: clang numbers unnamed blocks; the entry block's number = number of params (unnamed) ...
        labels = [b[0] for b in f.blocks]
        preds_phi = {}   # block label -> list of (dest var, ty, [(value, pred label)])
        # first pass: collect phis and value types
        for lab, ins in f.blocks:
            for s in ins:
                mp = re.match(r'^%("[^"]+"|[\w.$-]+) = phi (.*)$', s)
                if mp:
                    ty, rest = parse_type_prefix(mp.group(2))
                    inc = []
                    for pr in re.findall(r"\[\s*(.*?)\s*,\s*%(\"[^\"]+\"|[\w.$-]+)\s*\]", rest):
                        inc.append((pr[0], pr[1].strip('"')))
                    preds_phi.setdefault(lab, []).append((mp.group(1).strip('"'), ty, inc))
        self.phis = preds_phi
        self.entry_label = None
        # the entry block is referenced in phis by the number following the last unnamed parameter
        used = set(p for v in preds_phi.values() for (_, _, inc) in v for (_, p) in inc)
        used |= set(re.findall(r"label %(\"[^\"]+\"|[\w.$-]+)", "\n".join("\n".join(i) for _, i in f.blocks)))
        entry_alias = [u.strip('"') for u in used if u.strip('"') not in labels]
        self.entry_alias = entry_alias[0] if entry_alias else "entry"
        for lab, ins in f.blocks:
            body.append("L_%s: ;" % cid(lab if lab != "entry" else "entry"))
            for s in ins:
                self.emit_instr(s, lab, body, decls, allocas)
        hdr = self.proto(f.name, f.ret, f.params)
        self.out.append(hdr + "\n{")
        for a in allocas:
            self.out.append("    " + a)
        for v, ct in decls.items():
            self.out.append("    %s %s = 0;" % (ct, v))
        self.out += ["    " + b for b in body]
        self.out.append("}")

    def lab(self, l):
        l = l.strip('"')
        if l == self.entry_alias:
            l = "entry"
        return "L_" + cid(l)

    def phi_moves(self, frm, to, body_lines):
        """parallel copy for the phis of block `to` along edge frm->to"""
        to_l = to.strip('"')
        frm_names = {frm, "entry" if frm == "entry" else frm}
        if frm == "entry":
            frm_names.add(self.entry_alias)
        moves = []
        for (dst, ty, inc) in self.phis.get(to_l, []):
            src = None
            for (v, p) in inc:
                if p in frm_names:
                    src = v
            if src is None:
                raise Unsupported("phi without incoming value for edge %s->%s" % (frm, to_l))
            moves.append((dst, ty, src))
        if not moves:
            return
        if len(moves) > 160:
            raise Unsupported("more than 160 phis on one edge")
        def tmp(k, ty, sfx):
            return ("phip_t%d%s" if ctype(self.m, ty).endswith("*") else "phi_t%d%s") % (k, sfx)
        for sfx in self.sfx:
            for k, (dst, ty, src) in enumerate(moves):
                body_lines.append("%s = %s;" % (tmp(k, ty, sfx), self.const_expr(src, sfx)))
        for sfx in self.sfx:
            for k, (dst, ty, src) in enumerate(moves):
                body_lines.append("v_%s%s = (%s)%s;" % (cid(dst), sfx, ctype(self.m, ty), tmp(k, ty, sfx)))
        self.max_phi = max(getattr(self, "max_phi", 0), len(moves))

    def leak(self, body, what, ea, eb):
        if self.pair:
            body.append("LEAK((%s) == (%s), \"%s\");" % (ea, eb, what))

    def emit_instr(self, s, lab, body, decls, allocas):
        m = self.m
        dst = None
        md = re.match(r'^%("[^"]+"|[\w.$-]+) = (.*)$', s)
        rhs = s
        if md:
            dst = md.group(1).strip('"')
            rhs = md.group(2)
        rhs = rhs.strip()
        op = rhs.split()[0]
        if op in ("tail", "musttail", "notail"):
            rhs = rhs.split(None, 1)[1]
            op = rhs.split()[0]

        def setv(ty, exprs):
            ct = ctype(m, ty)
            r = m.resolve(ty)
            for sfx, e in zip(self.sfx, exprs):
                decls["v_" + cid(dst) + sfx] = ct
                if isinstance(r, IntTy) and mask(r.bits) and r.bits != 1:
                    e = "(%s) & %s" % (e, mask(r.bits))
                body.append("v_%s%s = (%s)(%s);" % (cid(dst), sfx, ct, e))

        if op == "phi":
            ty = parse_type_prefix(rhs[4:])[0]
            for sfx in self.sfx:
                decls["v_" + cid(dst) + sfx] = ctype(m, ty)
            return
        if op in ("add", "sub", "mul", "and", "or", "xor", "shl", "lshr", "ashr", "udiv", "urem", "sdiv", "srem"):
            r2 = strip_attrs(rhs[len(op):])
            ty, rest = parse_type_prefix(r2)
            a, b = split_top(rest)
            bits = m.resolve(ty).bits
            exprs = []
            vals = []
            for sfx in self.sfx:
                ea, eb = self.const_expr(a, sfx), self.const_expr(b, sfx)
                vals.append((ea, eb))
                ct = ctype(m, ty)
                if op in ("sdiv", "srem", "ashr"):
                    sc = sctype(bits)
                    cop = {"sdiv": "/", "srem": "%", "ashr": ">>"}[op]
                    sh = {8: 0, 16: 0, 32: 0, 64: 0}.get(bits, None)
                    if sh is None:
                        raise Unsupported("signed op on odd width")
                    exprs.append("(%s)((%s)%s %s (%s)%s)" % (ct, sc, ea, cop, sc if op != "ashr" else ct, eb))
                else:
                    cop = {"add": "+", "sub": "-", "mul": "*", "and": "&", "or": "|", "xor": "^", "shl": "<<", "lshr": ">>", "udiv": "/", "urem": "%"}[op]
                    exprs.append("(%s)%s %s (%s)%s" % (ct, ea, cop, ct, eb))
            if op in ("udiv", "urem", "sdiv", "srem") and self.pair:
                self.leak(body, "operands of a variable-latency division", vals[0][0], vals[1][0])
                self.leak(body, "operands of a variable-latency division", vals[0][1], vals[1][1])
            setv(ty, exprs)
            return
        if op == "icmp":
            mm = re.match(r"^icmp (\w+) (.*)$", rhs)
            pred = mm.group(1)
            ty, rest = parse_type_prefix(mm.group(2))
            a, b = split_top(rest)
            r = m.resolve(ty)
            exprs = []
            for sfx in self.sfx:
                ea, eb = self.const_expr(a, sfx), self.const_expr(b, sfx)
                if isinstance(r, PtrTy):
                    ea, eb = "(uintptr_t)" + ea, "(uintptr_t)" + eb
                    ct, sc = "uintptr_t", "intptr_t"
                else:
                    ct, sc = ctype(m, ty), sctype(r.bits)
                    if mask(r.bits):
                        raise Unsupported("icmp on odd width i%d" % r.bits)
                cop = {"eq": "==", "ne": "!=", "ugt": ">", "uge": ">=", "ult": "<", "ule": "<=", "sgt": ">", "sge": ">=", "slt": "<", "sle": "<="}[pred]
                cast = sc if pred[0] == "s" else ct
                exprs.append("((%s)%s %s (%s)%s) ? 1 : 0" % (cast, ea, cop, cast, eb))
            setv(IntTy(1), exprs)
            return
        if op == "select":
            parts = split_top(rhs[len("select"):])
            cty, cv = parse_type_prefix(strip_attrs(parts[0]))
            ty, av = parse_type_prefix(strip_attrs(parts[1]))
            _, bv = parse_type_prefix(strip_attrs(parts[2]))
            setv(ty, ["%s ? %s : %s" % (self.const_expr(cv, sfx), self.const_expr(av, sfx), self.const_expr(bv, sfx)) for sfx in self.sfx])
            return
        if op in ("zext", "sext", "trunc", "bitcast", "ptrtoint", "inttoptr", "addrspacecast", "freeze"):
            if op == "freeze":
                ty, v = parse_type_prefix(rhs[len(op):])
                setv(ty, [self.const_expr(v, sfx) for sfx in self.sfx])
                return
            mm = re.match(r"^%s (.*) to (.*)$" % op, rhs)
            fty, v = parse_type_prefix(mm.group(1))
            tty = parse_type_prefix(mm.group(2))[0]
            exprs = []
            for sfx in self.sfx:
                e = self.const_expr(v, sfx)
                if op == "sext":
                    fb = m.resolve(fty).bits
                    if fb == 1:
                        e = "(%s)(-(%s)(%s & 1))" % (ctype(m, tty), sctype(m.resolve(tty).bits), e)
                    elif mask(fb):
                        raise Unsupported("sext from odd width")
                    else:
                        e = "(%s)(%s)(%s)%s" % (ctype(m, tty), sctype(m.resolve(tty).bits), sctype(fb), e)
                elif op == "trunc" and m.resolve(tty).bits == 1:
                    e = "(%s) & 1" % e
                elif op == "ptrtoint":
                    e = "(uintptr_t)%s" % e
                elif op == "inttoptr":
                    e = "(uint8_t *)(uintptr_t)%s" % e
                exprs.append(e)
            setv(tty, exprs)
            return
        if op == "getelementptr":
            r2 = strip_attrs(rhs[len(op):])
            parts = split_top(r2)
            base_ty = parse_type_prefix(parts[0])[0]
            pty, pv = parse_type_prefix(parts[1])
            idxs = [parse_type_prefix(p) for p in parts[2:]]
            setv(PtrTy(IntTy(8)), [self.gep_expr(base_ty, self.const_expr(pv, sfx), idxs, sfx) for sfx in self.sfx])
            return
        if op == "alloca":
            r2 = strip_attrs(rhs[len(op):])
            parts = split_top(r2)
            ty = parse_type_prefix(parts[0])[0]
            n = 1
            if len(parts) > 1 and parts[1].strip():
                cnt = parts[1].strip().split()[-1]
                if not cnt.isdigit():
                    raise Unsupported("variable-length alloca")
                n = int(cnt)
            size = max(1, m.size_align(ty)[0] * n)
            for sfx in self.sfx:
                # word-granular backing store: CBMC keeps small arrays field-sensitive per element, so an aligned
                # pointer/word store hits exactly one element and can be read back precisely (vtable pointers!)
                if self.has_pointer(ty):
                    allocas.append("uint64_t a_%s%s[%d] __attribute__((aligned(16)));" % (cid(dst), sfx, (size + 7) // 8))
                else:
                    # plain data objects stay byte arrays: byte-granular fields (counters, flags) read back exactly
                    allocas.append("uint8_t a_%s%s[%d] __attribute__((aligned(16)));" % (cid(dst), sfx, size))
                decls["v_" + cid(dst) + sfx] = "uint8_t *"
                body.append("v_%s%s = (uint8_t *)a_%s%s;" % (cid(dst), sfx, cid(dst), sfx))
            return
        if op == "load":
            r2 = strip_attrs(rhs[len(op):])
            parts = split_top(r2)
            ty = parse_type_prefix(parts[0])[0]
            pty, pv = parse_type_prefix(parts[1])
            r = m.resolve(ty)
            ptrs = [self.const_expr(pv, sfx) for sfx in self.sfx]
            if self.pair:
                self.leak(body, "load address", "POFF(%s)" % ptrs[0], "POFF(%s)" % ptrs[1])
            if isinstance(r, (PtrTy, FnTy)):
                setv(ty, ["VLDP(%s)" % p for p in ptrs])
            else:
                sz = m.size_align(r)[0] * 8
                setv(ty, ["VLD%d(%s)" % (sz, p) for p in ptrs])
            return
        if op == "store":
            r2 = strip_attrs(rhs[len(op):])
            parts = split_top(r2)
            ty, vv = parse_type_prefix(parts[0])
            pty, pv = parse_type_prefix(parts[1])
            r = m.resolve(ty)
            ptrs = [self.const_expr(pv, sfx) for sfx in self.sfx]
            if self.pair:
                self.leak(body, "store address", "POFF(%s)" % ptrs[0], "POFF(%s)" % ptrs[1])
            for sfx, p in zip(self.sfx, ptrs):
                if isinstance(r, (PtrTy, FnTy)):
                    body.append("VSTP(%s, %s);" % (p, self.const_expr(vv, sfx)))
                else:
                    sz = m.size_align(r)[0] * 8
                    body.append("VST%d(%s, %s);" % (sz, p, self.const_expr(vv, sfx)))
            return
        if op == "br":
            mm = re.match(r"^br label %(\"[^\"]+\"|[\w.$-]+)$", rhs)
            if mm:
                self.phi_moves(lab, mm.group(1), body)
                body.append("goto %s;" % self.lab(mm.group(1)))
                return
            mm = re.match(r"^br i1 (.*), label %(\"[^\"]+\"|[\w.$-]+), label %(\"[^\"]+\"|[\w.$-]+)$", rhs)
            conds = [self.const_expr(mm.group(1), sfx) for sfx in self.sfx]
            if self.pair:
                self.leak(body, "branch condition", conds[0], conds[1])
            t1, t2 = [], []
            self.phi_moves(lab, mm.group(2), t1)
            self.phi_moves(lab, mm.group(3), t2)
            body.append("if (%s) { %s goto %s; } else { %s goto %s; }" % (conds[0], " ".join(t1), self.lab(mm.group(2)), " ".join(t2), self.lab(mm.group(3))))
            return
        if op == "switch":
            mm = re.match(r"^switch (.*?), label %(\"[^\"]+\"|[\w.$-]+) \[(.*)\]$", rhs)
            ty, v = parse_type_prefix(mm.group(1))
            vals = [self.const_expr(v, sfx) for sfx in self.sfx]
            if self.pair:
                self.leak(body, "switch value", vals[0], vals[1])
            body.append("switch ((uint64_t)%s) {" % vals[0])
            for cm in re.finditer(r"i\d+ (-?\d+), label %(\"[^\"]+\"|[\w.$-]+)", mm.group(3)):
                t = []
                self.phi_moves(lab, cm.group(2), t)
                bits = m.resolve(ty).bits
                cv = int(cm.group(1)) & ((1 << bits) - 1)
                body.append("case UINT64_C(%d): { %s goto %s; }" % (cv, " ".join(t), self.lab(cm.group(2))))
            t = []
            self.phi_moves(lab, mm.group(2), t)
            body.append("default: { %s goto %s; } }" % (" ".join(t), self.lab(mm.group(2))))
            return
        if op == "ret":
            if rhs.strip() == "ret void":
                body.append("return;")
            else:
                ty, v = parse_type_prefix(strip_attrs(rhs[3:]))
                if self.pair:
                    body.append("*ret_b = %s;" % self.const_expr(v, "_b"))
                body.append("return %s;" % self.const_expr(v, self.sfx[0]))
            return
        if op == "unreachable":
            body.append("VUNREACHABLE();")
            return
        if op == "call":
            self.emit_call(rhs, dst, body, decls, setv)
            return
        raise Unsupported("instruction: " + s)

    def emit_call(self, rhs, dst, body, decls, setv):
        m = self.m
        if "@llvm.experimental.noalias" in rhs:
            return
        r2 = strip_attrs(rhs[len("call"):])
        rty, rest = parse_type_prefix(r2)
        if isinstance(rty, FnTy):
            rty = rty.ret
        mm = re.match(r'^(@("[^"]+"|[\w.$-]+)|%("[^"]+"|[\w.$-]+))\s*\((.*)\)$', rest)
        if not mm:
            raise Unsupported("call: " + rhs)
        if mm.group(1).startswith("%"):
            targs = []
            for a in split_top(mm.group(4)):
                ty, rest_a = parse_type_prefix(strip_attrs(a))
                targs.append((ty, rest_a))
            if self.pair:
                # a call through a pointer (caller-supplied callback): the target must not depend on secrets; the callee is a
                # pair function of the environment, named after the signature: verif_indirect_<ret>_<params>__pair(fn, a..., b..., &ret_b)
                short = {"uint8_t *": "p", "uint64_t": "i64", "uint32_t": "i32", "uint16_t": "i16", "uint8_t": "i8", "void": "v"}
                rct = ctype(m, rty)
                sig = short.get(rct, "x") + "_" + "".join(short.get(ctype(m, t), "x") for t, _ in targs)
                fn = "verif_indirect_%s__pair" % sig
                fa, fb = self.const_expr(mm.group(1), "_a"), self.const_expr(mm.group(1), "_b")
                self.leak(body, "indirect call target", fa, fb)
                al = ["(uint8_t *)" + fa] + [self.const_expr(v, "_a") for _, v in targs] + [self.const_expr(v, "_b") for _, v in targs]
                has_ret = not isinstance(m.resolve(rty), VoidTy)
                proto_args = ["uint8_t *fn"] + [ctype(m, t) for t, _ in targs] * 2
                if has_ret:
                    rb = "callret_%s_b" % cid(dst if dst else "x")
                    decls[rb] = rct
                    al.append("&" + rb)
                    proto_args.append(rct + " *ret_b")
                self.indirect_protos.add("%s %s(%s);" % (rct, fn, ", ".join(proto_args)))
                call = "%s(%s)" % (fn, ", ".join(al))
                if has_ret and dst is not None:
                    decls["v_" + cid(dst) + "_a"] = rct
                    decls["v_" + cid(dst) + "_b"] = rct
                    body.append("v_%s_a = %s;" % (cid(dst), call))
                    body.append("v_%s_b = %s;" % (cid(dst), rb))
                else:
                    body.append(call + ";")
                return
            fpt = "%s (*)(%s)" % (ctype(m, rty), ", ".join(ctype(m, t) for t, _ in targs) or "void")
            call = "((%s)%s)(%s)" % (fpt, self.const_expr(mm.group(1), ""), ", ".join(self.const_expr(v, "") for _, v in targs))
            if dst is not None and not isinstance(m.resolve(rty), VoidTy):
                decls["v_" + cid(dst)] = ctype(m, rty)
                body.append("v_%s = (%s)%s;" % (cid(dst), ctype(m, rty), call))
            else:
                body.append(call + ";")
            return
        callee = mm.group(2).strip('"')
        if callee.startswith("llvm.experimental.noalias") or callee.startswith("llvm.dbg"):
            return
        args = [self.typed_operand(a, None) if False else a for a in split_top(mm.group(4))]
        targs = []
        for a in args:
            ty, rest_a = parse_type_prefix(strip_attrs(a))
            targs.append((ty, rest_a))

        def A(k, sfx):
            return self.const_expr(targs[k][1], sfx)
        if callee.startswith("llvm.lifetime") or callee.startswith("llvm.dbg") or callee.startswith("llvm.experimental.noalias") or callee == "llvm.assume":
            return
        if callee.startswith("llvm.memcpy") or callee.startswith("llvm.memmove") or callee.startswith("llvm.memset"):
            fn = "memcpy" if "memcpy" in callee else "memmove" if "memmove" in callee else "memset"
            if self.pair:
                self.leak(body, fn + " length", A(2, "_a"), A(2, "_b"))
                self.leak(body, fn + " destination", "POFF(%s)" % A(0, "_a"), "POFF(%s)" % A(0, "_b"))
                if fn != "memset":
                    self.leak(body, fn + " source", "POFF(%s)" % A(1, "_a"), "POFF(%s)" % A(1, "_b"))
            for sfx in self.sfx:
                if fn == "memset":
                    body.append("memset(%s, (int)%s, (size_t)%s);" % (A(0, sfx), A(1, sfx), A(2, sfx)))
                else:
                    body.append("%s(%s, %s, (size_t)%s);" % (fn, A(0, sfx), A(1, sfx), A(2, sfx)))
            return
        mi = re.match(r"^llvm\.(fshl|fshr|bswap|umin|umax|smin|smax|abs|ctpop|ctlz|cttz)\.i(\d+)$", callee)
        if mi:
            k, bits = mi.group(1), int(mi.group(2))
            ct = ctype(m, IntTy(bits))
            exprs = []
            for sfx in self.sfx:
                if k in ("fshl", "fshr"):
                    a, b, c = A(0, sfx), A(1, sfx), A(2, sfx)
                    if self.pair and sfx == "_a":
                        self.leak(body, "funnel shift amount", A(2, "_a"), A(2, "_b"))
                    if k == "fshl":
                        exprs.append("VFSHL%d(%s, %s, %s)" % (bits, a, b, c))
                    else:
                        exprs.append("VFSHR%d(%s, %s, %s)" % (bits, a, b, c))
                elif k == "bswap":
                    exprs.append("__builtin_bswap%d(%s)" % (bits, A(0, sfx)))
                elif k in ("umin", "umax"):
                    a, b = A(0, sfx), A(1, sfx)
                    exprs.append("((%s)%s %s (%s)%s) ? %s : %s" % (ct, a, "<" if k == "umin" else ">", ct, b, a, b))
                elif k in ("smin", "smax"):
                    a, b = A(0, sfx), A(1, sfx)
                    sc = sctype(bits)
                    exprs.append("((%s)%s %s (%s)%s) ? %s : %s" % (sc, a, "<" if k == "smin" else ">", sc, b, a, b))
                else:
                    raise Unsupported("intrinsic " + callee)
            setv(IntTy(bits), exprs)
            return
        if callee == "llvm.trap":
            body.append("VUNREACHABLE();")
            return
        if callee.startswith("llvm.expect"):
            setv(targs[0][0], [A(0, sfx) for sfx in self.sfx])
            return
        if callee.startswith("llvm."):
            raise Unsupported("intrinsic " + callee)
        if callee in LIBC_MAP:
            spec = LIBC_MAP[callee]
            for k, sfx in enumerate(self.sfx):
                call = spec(self, [A(i, sfx) for i in range(len(targs))], sfx)
                if dst is not None and not isinstance(m.resolve(rty), VoidTy):
                    decls["v_" + cid(dst) + sfx] = ctype(m, rty)
                    body.append("v_%s%s = (%s)%s;" % (cid(dst), sfx, ctype(m, rty), call))
                else:
                    body.append(call + ";")
            if self.pair and callee in ("strlen",):
                self.leak(body, "strlen result", "v_%s_a" % cid(dst), "v_%s_b" % cid(dst))
            return
        # ordinary call
        has_ret = not isinstance(m.resolve(rty), VoidTy)
        if self.pair:
            al = [A(i, "_a") for i in range(len(targs))] + [A(i, "_b") for i in range(len(targs))]
            if has_ret:
                rb = "callret_%s_b" % cid(dst if dst else "x")
                decls[rb] = ctype(m, rty)
                al.append("&" + rb)
            call = "%s(%s)" % (self.fname(callee), ", ".join(al))
            if has_ret and dst is not None:
                decls["v_" + cid(dst) + "_a"] = ctype(m, rty)
                decls["v_" + cid(dst) + "_b"] = ctype(m, rty)
                body.append("v_%s_a = %s;" % (cid(dst), call))
                body.append("v_%s_b = %s;" % (cid(dst), rb))
            else:
                body.append(call + ";")
        else:
            call = "%s(%s)" % (self.fname(callee), ", ".join(A(i, "") for i in range(len(targs))))
            if has_ret and dst is not None:
                decls["v_" + cid(dst)] = ctype(m, rty)
                body.append("v_%s = (%s)%s;" % (cid(dst), ctype(m, rty), call))
            else:
                body.append(call + ";")


INTRINSIC_FREE = set()


def _libc(fn):
    return lambda em, a, sfx: "%s(%s)" % (fn, ", ".join(a))


LIBC_MAP = {
    "strlen": lambda em, a, sfx: "(uint64_t)strlen((const char *)%s)" % a[0],
    "explicit_bzero": lambda em, a, sfx: "verif_explicit_bzero(%s, (size_t)%s)" % (a[0], a[1]),
    "memset": lambda em, a, sfx: "(uint8_t *)memset(%s, (int)%s, (size_t)%s)" % (a[0], a[1], a[2]),
    "memcpy": lambda em, a, sfx: "(uint8_t *)memcpy(%s, %s, (size_t)%s)" % (a[0], a[1], a[2]),
    "memmove": lambda em, a, sfx: "(uint8_t *)memmove(%s, %s, (size_t)%s)" % (a[0], a[1], a[2]),
    "memcmp": lambda em, a, sfx: "(uint32_t)memcmp(%s, %s, (size_t)%s)" % (a[0], a[1], a[2]),
    "bcmp": lambda em, a, sfx: "(uint32_t)memcmp(%s, %s, (size_t)%s)" % (a[0], a[1], a[2]),
    "_Znwm": lambda em, a, sfx: "(uint8_t *)verif_new((size_t)%s)" % a[0],
    "_Znam": lambda em, a, sfx: "(uint8_t *)verif_new((size_t)%s)" % a[0],
    "_ZdlPv": lambda em, a, sfx: "verif_delete(%s)" % a[0],
    "_ZdaPv": lambda em, a, sfx: "verif_delete(%s)" % a[0],
    "_ZdlPvm": lambda em, a, sfx: "verif_delete(%s)" % a[0],
    "malloc": lambda em, a, sfx: "(uint8_t *)verif_new((size_t)%s)" % a[0],
    "free": lambda em, a, sfx: "verif_delete(%s)" % a[0],
    "__cxa_pure_virtual": lambda em, a, sfx: "VUNREACHABLE()",
    "_ZSt20__throw_length_errorPKc": lambda em, a, sfx: "VUNREACHABLE()",
    "_ZSt17__throw_bad_allocv": lambda em, a, sfx: "VUNREACHABLE()",
    "_ZSt19__throw_logic_errorPKc": lambda em, a, sfx: "VUNREACHABLE()",
    "_ZSt24__throw_out_of_range_fmtPKcz": lambda em, a, sfx: "VUNREACHABLE()",
}

PRELUDE = r"""/* generated by enc/llvm/ll2c.py -- byte-addressed translation of LLVM IR */
#include <stdint.h>
#include <stddef.h>
#include <string.h>
#include <stdlib.h>
#ifndef VERIF_IR_PRELUDE
#define VERIF_IR_PRELUDE
static inline uint8_t *VGEP(uint8_t *p, int64_t off) { return off ? p + off : p; }
static inline uint8_t  VLD8(const uint8_t *p) { return *p; }
static inline uint16_t VLD16(const uint8_t *p) { uint16_t v; memcpy(&v, p, 2); return v; }
static inline uint32_t VLD32(const uint8_t *p) { uint32_t v; memcpy(&v, p, 4); return v; }
static inline uint64_t VLD64(const uint8_t *p) { uint64_t v; memcpy(&v, p, 8); return v; }
static inline uint8_t *VLDP(const uint8_t *p) { return *(uint8_t *const *)p; }
static inline void VST8(uint8_t *p, uint8_t v) { *p = v; }
static inline void VST16(uint8_t *p, uint16_t v) { memcpy(p, &v, 2); }
static inline void VST32(uint8_t *p, uint32_t v) { memcpy(p, &v, 4); }
static inline void VST64(uint8_t *p, uint64_t v) { memcpy(p, &v, 8); }
static inline void VSTP(uint8_t *p, uint8_t *v) { *(uint8_t **)p = v; }
static inline uint64_t VFSHL64(uint64_t a, uint64_t b, uint64_t c) { c &= 63; return c ? (a << c) | (b >> (64 - c)) : a; }
static inline uint64_t VFSHR64(uint64_t a, uint64_t b, uint64_t c) { c &= 63; return c ? (a << (64 - c)) | (b >> c) : b; }
static inline uint32_t VFSHL32(uint32_t a, uint32_t b, uint32_t c) { c &= 31; return c ? (a << c) | (b >> (32 - c)) : a; }
static inline uint32_t VFSHR32(uint32_t a, uint32_t b, uint32_t c) { c &= 31; return c ? (a << (32 - c)) | (b >> c) : b; }
static inline uint16_t VFSHL16(uint16_t a, uint16_t b, uint16_t c) { c &= 15; return (uint16_t)(c ? (a << c) | (b >> (16 - c)) : a); }
static inline uint8_t VFSHL8(uint8_t a, uint8_t b, uint8_t c) { c &= 7; return (uint8_t)(c ? (a << c) | (b >> (8 - c)) : a); }
#ifdef VERIF_REPLAY
#include <stdio.h>
extern int vh_failed;
#define VUNREACHABLE() abort()
#define VUNTRANSLATED() abort()
void vh_report(const char *kind, const char *msg, const char *file, int line);
#define LEAK(c, what) do { if (!(c)) { vh_report("CHECK-FAILED", "leak: " what, __FILE__, __LINE__); vh_failed = 1; } } while (0)
#define POFF(p) ((uint64_t)0)
#else
#define VUNREACHABLE() __CPROVER_assert(0, "unreachable reached")
#define VUNTRANSLATED() __CPROVER_assert(0, "function outside the translator's reach was called")
#define LEAK(c, what) do { __CPROVER_assert((c), "secret-independent " what); __CPROVER_assume(c); } while (0)
#define POFF(p) ((uint64_t)__CPROVER_POINTER_OFFSET(p))
#endif
void verif_explicit_bzero(uint8_t *p, size_t n);
void verif_unknown_function(void);
uint8_t *verif_new(size_t n);
void verif_delete(uint8_t *p);
static uint64_t phi_t0, phi_t1, phi_t2, phi_t3, phi_t4, phi_t5, phi_t6, phi_t7, phi_t8, phi_t9, phi_t10, phi_t11, phi_t12, phi_t13, phi_t14, phi_t15, phi_t16, phi_t17, phi_t18, phi_t19, phi_t20, phi_t21, phi_t22, phi_t23, phi_t24, phi_t25, phi_t26, phi_t27, phi_t28, phi_t29, phi_t30, phi_t31, phi_t32, phi_t33, phi_t34, phi_t35, phi_t36, phi_t37, phi_t38, phi_t39, phi_t40, phi_t41, phi_t42, phi_t43, phi_t44, phi_t45, phi_t46, phi_t47, phi_t48, phi_t49, phi_t50, phi_t51, phi_t52, phi_t53, phi_t54, phi_t55, phi_t56, phi_t57, phi_t58, phi_t59, phi_t60, phi_t61, phi_t62, phi_t63, phi_t64, phi_t65, phi_t66, phi_t67, phi_t68, phi_t69, phi_t70, phi_t71, phi_t72, phi_t73, phi_t74, phi_t75, phi_t76, phi_t77, phi_t78, phi_t79, phi_t80, phi_t81, phi_t82, phi_t83, phi_t84, phi_t85, phi_t86, phi_t87, phi_t88, phi_t89, phi_t90, phi_t91, phi_t92, phi_t93, phi_t94, phi_t95, phi_t96, phi_t97, phi_t98, phi_t99, phi_t100, phi_t101, phi_t102, phi_t103, phi_t104, phi_t105, phi_t106, phi_t107, phi_t108, phi_t109, phi_t110, phi_t111, phi_t112, phi_t113, phi_t114, phi_t115, phi_t116, phi_t117, phi_t118, phi_t119, phi_t120, phi_t121, phi_t122, phi_t123, phi_t124, phi_t125, phi_t126, phi_t127, phi_t128, phi_t129, phi_t130, phi_t131, phi_t132, phi_t133, phi_t134, phi_t135, phi_t136, phi_t137, phi_t138, phi_t139, phi_t140, phi_t141, phi_t142, phi_t143, phi_t144, phi_t145, phi_t146, phi_t147, phi_t148, phi_t149, phi_t150, phi_t151, phi_t152, phi_t153, phi_t154, phi_t155, phi_t156, phi_t157, phi_t158, phi_t159;
static uint8_t *phip_t0, *phip_t1, *phip_t2, *phip_t3, *phip_t4, *phip_t5, *phip_t6, *phip_t7, *phip_t8, *phip_t9, *phip_t10, *phip_t11, *phip_t12, *phip_t13, *phip_t14, *phip_t15, *phip_t16, *phip_t17, *phip_t18, *phip_t19, *phip_t20, *phip_t21, *phip_t22, *phip_t23, *phip_t24, *phip_t25, *phip_t26, *phip_t27, *phip_t28, *phip_t29, *phip_t30, *phip_t31, *phip_t32, *phip_t33, *phip_t34, *phip_t35, *phip_t36, *phip_t37, *phip_t38, *phip_t39, *phip_t40, *phip_t41, *phip_t42, *phip_t43, *phip_t44, *phip_t45, *phip_t46, *phip_t47, *phip_t48, *phip_t49, *phip_t50, *phip_t51, *phip_t52, *phip_t53, *phip_t54, *phip_t55, *phip_t56, *phip_t57, *phip_t58, *phip_t59, *phip_t60, *phip_t61, *phip_t62, *phip_t63, *phip_t64, *phip_t65, *phip_t66, *phip_t67, *phip_t68, *phip_t69, *phip_t70, *phip_t71, *phip_t72, *phip_t73, *phip_t74, *phip_t75, *phip_t76, *phip_t77, *phip_t78, *phip_t79, *phip_t80, *phip_t81, *phip_t82, *phip_t83, *phip_t84, *phip_t85, *phip_t86, *phip_t87, *phip_t88, *phip_t89, *phip_t90, *phip_t91, *phip_t92, *phip_t93, *phip_t94, *phip_t95, *phip_t96, *phip_t97, *phip_t98, *phip_t99, *phip_t100, *phip_t101, *phip_t102, *phip_t103, *phip_t104, *phip_t105, *phip_t106, *phip_t107, *phip_t108, *phip_t109, *phip_t110, *phip_t111, *phip_t112, *phip_t113, *phip_t114, *phip_t115, *phip_t116, *phip_t117, *phip_t118, *phip_t119, *phip_t120, *phip_t121, *phip_t122, *phip_t123, *phip_t124, *phip_t125, *phip_t126, *phip_t127, *phip_t128, *phip_t129, *phip_t130, *phip_t131, *phip_t132, *phip_t133, *phip_t134, *phip_t135, *phip_t136, *phip_t137, *phip_t138, *phip_t139, *phip_t140, *phip_t141, *phip_t142, *phip_t143, *phip_t144, *phip_t145, *phip_t146, *phip_t147, *phip_t148, *phip_t149, *phip_t150, *phip_t151, *phip_t152, *phip_t153, *phip_t154, *phip_t155, *phip_t156, *phip_t157, *phip_t158, *phip_t159;
static uint64_t phi_t0_a, phi_t1_a, phi_t2_a, phi_t3_a, phi_t4_a, phi_t5_a, phi_t6_a, phi_t7_a, phi_t8_a, phi_t9_a, phi_t10_a, phi_t11_a, phi_t12_a, phi_t13_a, phi_t14_a, phi_t15_a, phi_t16_a, phi_t17_a, phi_t18_a, phi_t19_a, phi_t20_a, phi_t21_a, phi_t22_a, phi_t23_a, phi_t24_a, phi_t25_a, phi_t26_a, phi_t27_a, phi_t28_a, phi_t29_a, phi_t30_a, phi_t31_a, phi_t32_a, phi_t33_a, phi_t34_a, phi_t35_a, phi_t36_a, phi_t37_a, phi_t38_a, phi_t39_a, phi_t40_a, phi_t41_a, phi_t42_a, phi_t43_a, phi_t44_a, phi_t45_a, phi_t46_a, phi_t47_a, phi_t48_a, phi_t49_a, phi_t50_a, phi_t51_a, phi_t52_a, phi_t53_a, phi_t54_a, phi_t55_a, phi_t56_a, phi_t57_a, phi_t58_a, phi_t59_a, phi_t60_a, phi_t61_a, phi_t62_a, phi_t63_a, phi_t64_a, phi_t65_a, phi_t66_a, phi_t67_a, phi_t68_a, phi_t69_a, phi_t70_a, phi_t71_a, phi_t72_a, phi_t73_a, phi_t74_a, phi_t75_a, phi_t76_a, phi_t77_a, phi_t78_a, phi_t79_a, phi_t80_a, phi_t81_a, phi_t82_a, phi_t83_a, phi_t84_a, phi_t85_a, phi_t86_a, phi_t87_a, phi_t88_a, phi_t89_a, phi_t90_a, phi_t91_a, phi_t92_a, phi_t93_a, phi_t94_a, phi_t95_a, phi_t96_a, phi_t97_a, phi_t98_a, phi_t99_a, phi_t100_a, phi_t101_a, phi_t102_a, phi_t103_a, phi_t104_a, phi_t105_a, phi_t106_a, phi_t107_a, phi_t108_a, phi_t109_a, phi_t110_a, phi_t111_a, phi_t112_a, phi_t113_a, phi_t114_a, phi_t115_a, phi_t116_a, phi_t117_a, phi_t118_a, phi_t119_a, phi_t120_a, phi_t121_a, phi_t122_a, phi_t123_a, phi_t124_a, phi_t125_a, phi_t126_a, phi_t127_a, phi_t128_a, phi_t129_a, phi_t130_a, phi_t131_a, phi_t132_a, phi_t133_a, phi_t134_a, phi_t135_a, phi_t136_a, phi_t137_a, phi_t138_a, phi_t139_a, phi_t140_a, phi_t141_a, phi_t142_a, phi_t143_a, phi_t144_a, phi_t145_a, phi_t146_a, phi_t147_a, phi_t148_a, phi_t149_a, phi_t150_a, phi_t151_a, phi_t152_a, phi_t153_a, phi_t154_a, phi_t155_a, phi_t156_a, phi_t157_a, phi_t158_a, phi_t159_a;
static uint8_t *phip_t0_a, *phip_t1_a, *phip_t2_a, *phip_t3_a, *phip_t4_a, *phip_t5_a, *phip_t6_a, *phip_t7_a, *phip_t8_a, *phip_t9_a, *phip_t10_a, *phip_t11_a, *phip_t12_a, *phip_t13_a, *phip_t14_a, *phip_t15_a, *phip_t16_a, *phip_t17_a, *phip_t18_a, *phip_t19_a, *phip_t20_a, *phip_t21_a, *phip_t22_a, *phip_t23_a, *phip_t24_a, *phip_t25_a, *phip_t26_a, *phip_t27_a, *phip_t28_a, *phip_t29_a, *phip_t30_a, *phip_t31_a, *phip_t32_a, *phip_t33_a, *phip_t34_a, *phip_t35_a, *phip_t36_a, *phip_t37_a, *phip_t38_a, *phip_t39_a, *phip_t40_a, *phip_t41_a, *phip_t42_a, *phip_t43_a, *phip_t44_a, *phip_t45_a, *phip_t46_a, *phip_t47_a, *phip_t48_a, *phip_t49_a, *phip_t50_a, *phip_t51_a, *phip_t52_a, *phip_t53_a, *phip_t54_a, *phip_t55_a, *phip_t56_a, *phip_t57_a, *phip_t58_a, *phip_t59_a, *phip_t60_a, *phip_t61_a, *phip_t62_a, *phip_t63_a, *phip_t64_a, *phip_t65_a, *phip_t66_a, *phip_t67_a, *phip_t68_a, *phip_t69_a, *phip_t70_a, *phip_t71_a, *phip_t72_a, *phip_t73_a, *phip_t74_a, *phip_t75_a, *phip_t76_a, *phip_t77_a, *phip_t78_a, *phip_t79_a, *phip_t80_a, *phip_t81_a, *phip_t82_a, *phip_t83_a, *phip_t84_a, *phip_t85_a, *phip_t86_a, *phip_t87_a, *phip_t88_a, *phip_t89_a, *phip_t90_a, *phip_t91_a, *phip_t92_a, *phip_t93_a, *phip_t94_a, *phip_t95_a, *phip_t96_a, *phip_t97_a, *phip_t98_a, *phip_t99_a, *phip_t100_a, *phip_t101_a, *phip_t102_a, *phip_t103_a, *phip_t104_a, *phip_t105_a, *phip_t106_a, *phip_t107_a, *phip_t108_a, *phip_t109_a, *phip_t110_a, *phip_t111_a, *phip_t112_a, *phip_t113_a, *phip_t114_a, *phip_t115_a, *phip_t116_a, *phip_t117_a, *phip_t118_a, *phip_t119_a, *phip_t120_a, *phip_t121_a, *phip_t122_a, *phip_t123_a, *phip_t124_a, *phip_t125_a, *phip_t126_a, *phip_t127_a, *phip_t128_a, *phip_t129_a, *phip_t130_a, *phip_t131_a, *phip_t132_a, *phip_t133_a, *phip_t134_a, *phip_t135_a, *phip_t136_a, *phip_t137_a, *phip_t138_a, *phip_t139_a, *phip_t140_a, *phip_t141_a, *phip_t142_a, *phip_t143_a, *phip_t144_a, *phip_t145_a, *phip_t146_a, *phip_t147_a, *phip_t148_a, *phip_t149_a, *phip_t150_a, *phip_t151_a, *phip_t152_a, *phip_t153_a, *phip_t154_a, *phip_t155_a, *phip_t156_a, *phip_t157_a, *phip_t158_a, *phip_t159_a;
static uint64_t phi_t0_b, phi_t1_b, phi_t2_b, phi_t3_b, phi_t4_b, phi_t5_b, phi_t6_b, phi_t7_b, phi_t8_b, phi_t9_b, phi_t10_b, phi_t11_b, phi_t12_b, phi_t13_b, phi_t14_b, phi_t15_b, phi_t16_b, phi_t17_b, phi_t18_b, phi_t19_b, phi_t20_b, phi_t21_b, phi_t22_b, phi_t23_b, phi_t24_b, phi_t25_b, phi_t26_b, phi_t27_b, phi_t28_b, phi_t29_b, phi_t30_b, phi_t31_b, phi_t32_b, phi_t33_b, phi_t34_b, phi_t35_b, phi_t36_b, phi_t37_b, phi_t38_b, phi_t39_b, phi_t40_b, phi_t41_b, phi_t42_b, phi_t43_b, phi_t44_b, phi_t45_b, phi_t46_b, phi_t47_b, phi_t48_b, phi_t49_b, phi_t50_b, phi_t51_b, phi_t52_b, phi_t53_b, phi_t54_b, phi_t55_b, phi_t56_b, phi_t57_b, phi_t58_b, phi_t59_b, phi_t60_b, phi_t61_b, phi_t62_b, phi_t63_b, phi_t64_b, phi_t65_b, phi_t66_b, phi_t67_b, phi_t68_b, phi_t69_b, phi_t70_b, phi_t71_b, phi_t72_b, phi_t73_b, phi_t74_b, phi_t75_b, phi_t76_b, phi_t77_b, phi_t78_b, phi_t79_b, phi_t80_b, phi_t81_b, phi_t82_b, phi_t83_b, phi_t84_b, phi_t85_b, phi_t86_b, phi_t87_b, phi_t88_b, phi_t89_b, phi_t90_b, phi_t91_b, phi_t92_b, phi_t93_b, phi_t94_b, phi_t95_b, phi_t96_b, phi_t97_b, phi_t98_b, phi_t99_b, phi_t100_b, phi_t101_b, phi_t102_b, phi_t103_b, phi_t104_b, phi_t105_b, phi_t106_b, phi_t107_b, phi_t108_b, phi_t109_b, phi_t110_b, phi_t111_b, phi_t112_b, phi_t113_b, phi_t114_b, phi_t115_b, phi_t116_b, phi_t117_b, phi_t118_b, phi_t119_b, phi_t120_b, phi_t121_b, phi_t122_b, phi_t123_b, phi_t124_b, phi_t125_b, phi_t126_b, phi_t127_b, phi_t128_b, phi_t129_b, phi_t130_b, phi_t131_b, phi_t132_b, phi_t133_b, phi_t134_b, phi_t135_b, phi_t136_b, phi_t137_b, phi_t138_b, phi_t139_b, phi_t140_b, phi_t141_b, phi_t142_b, phi_t143_b, phi_t144_b, phi_t145_b, phi_t146_b, phi_t147_b, phi_t148_b, phi_t149_b, phi_t150_b, phi_t151_b, phi_t152_b, phi_t153_b, phi_t154_b, phi_t155_b, phi_t156_b, phi_t157_b, phi_t158_b, phi_t159_b;
static uint8_t *phip_t0_b, *phip_t1_b, *phip_t2_b, *phip_t3_b, *phip_t4_b, *phip_t5_b, *phip_t6_b, *phip_t7_b, *phip_t8_b, *phip_t9_b, *phip_t10_b, *phip_t11_b, *phip_t12_b, *phip_t13_b, *phip_t14_b, *phip_t15_b, *phip_t16_b, *phip_t17_b, *phip_t18_b, *phip_t19_b, *phip_t20_b, *phip_t21_b, *phip_t22_b, *phip_t23_b, *phip_t24_b, *phip_t25_b, *phip_t26_b, *phip_t27_b, *phip_t28_b, *phip_t29_b, *phip_t30_b, *phip_t31_b, *phip_t32_b, *phip_t33_b, *phip_t34_b, *phip_t35_b, *phip_t36_b, *phip_t37_b, *phip_t38_b, *phip_t39_b, *phip_t40_b, *phip_t41_b, *phip_t42_b, *phip_t43_b, *phip_t44_b, *phip_t45_b, *phip_t46_b, *phip_t47_b, *phip_t48_b, *phip_t49_b, *phip_t50_b, *phip_t51_b, *phip_t52_b, *phip_t53_b, *phip_t54_b, *phip_t55_b, *phip_t56_b, *phip_t57_b, *phip_t58_b, *phip_t59_b, *phip_t60_b, *phip_t61_b, *phip_t62_b, *phip_t63_b, *phip_t64_b, *phip_t65_b, *phip_t66_b, *phip_t67_b, *phip_t68_b, *phip_t69_b, *phip_t70_b, *phip_t71_b, *phip_t72_b, *phip_t73_b, *phip_t74_b, *phip_t75_b, *phip_t76_b, *phip_t77_b, *phip_t78_b, *phip_t79_b, *phip_t80_b, *phip_t81_b, *phip_t82_b, *phip_t83_b, *phip_t84_b, *phip_t85_b, *phip_t86_b, *phip_t87_b, *phip_t88_b, *phip_t89_b, *phip_t90_b, *phip_t91_b, *phip_t92_b, *phip_t93_b, *phip_t94_b, *phip_t95_b, *phip_t96_b, *phip_t97_b, *phip_t98_b, *phip_t99_b, *phip_t100_b, *phip_t101_b, *phip_t102_b, *phip_t103_b, *phip_t104_b, *phip_t105_b, *phip_t106_b, *phip_t107_b, *phip_t108_b, *phip_t109_b, *phip_t110_b, *phip_t111_b, *phip_t112_b, *phip_t113_b, *phip_t114_b, *phip_t115_b, *phip_t116_b, *phip_t117_b, *phip_t118_b, *phip_t119_b, *phip_t120_b, *phip_t121_b, *phip_t122_b, *phip_t123_b, *phip_t124_b, *phip_t125_b, *phip_t126_b, *phip_t127_b, *phip_t128_b, *phip_t129_b, *phip_t130_b, *phip_t131_b, *phip_t132_b, *phip_t133_b, *phip_t134_b, *phip_t135_b, *phip_t136_b, *phip_t137_b, *phip_t138_b, *phip_t139_b, *phip_t140_b, *phip_t141_b, *phip_t142_b, *phip_t143_b, *phip_t144_b, *phip_t145_b, *phip_t146_b, *phip_t147_b, *phip_t148_b, *phip_t149_b, *phip_t150_b, *phip_t151_b, *phip_t152_b, *phip_t153_b, *phip_t154_b, *phip_t155_b, *phip_t156_b, *phip_t157_b, *phip_t158_b, *phip_t159_b;
#endif
"""


NULL_GEP = False


def translate(text, prefix="ir_", pair=False, extern_prefix="", null_gep=False):
    global NULL_GEP
    NULL_GEP = null_gep
    mod = parse_module(text)
    em = Emitter(mod, prefix=prefix, pair=pair, extern_prefix=extern_prefix)
    text = em.emit()
    mod.skipped = em.skipped
    return text, mod


if __name__ == "__main__":
    import argparse
    ap = argparse.ArgumentParser()
    ap.add_argument("ll")
    ap.add_argument("-o", default="-")
    ap.add_argument("--pair", action="store_true")
    ap.add_argument("--prefix", default="ir_")
    a = ap.parse_args()
    c, _ = translate(open(a.ll).read(), prefix=a.prefix, pair=a.pair)
    (sys.stdout if a.o == "-" else open(a.o, "w")).write(c)
