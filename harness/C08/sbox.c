/* C08 (oracle self-consistency): the bit-sliced substitution layer used by
 * spec_permute equals the 5-bit S-box table of the paper on all 64 columns. */
#include "vh.h"
#include "spec.h"
void spec_P(uint64_t x[5], unsigned r) { spec_permute(x, r); }
void harness(void)
{
    uint64_t a[5], b[5];
    unsigned i; int ok = 1;
    for (i = 0; i < 5; ++i) { a[i] = nondet_u64(); b[i] = a[i]; }
    spec_sbox_table_layer(a);
    spec_sbox_sliced_layer(b);
    for (i = 0; i < 5; ++i) ok &= (a[i] == b[i]);
    CHECK(ok, "sliced S-box layer equals table S-box layer");
    WITNESS();
}
