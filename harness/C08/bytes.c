/* C08: the byte-range primitives act on exactly the addressed bytes of the
 * canonical big-endian state.
 *   OP: 0 add, 1 overwrite, 2 zero, 3 extract, 4 extract_and_add,
 *       5 extract_and_overwrite, 6 extract_and_overwrite with input == output,
 *       7 init, 8 copy
 *   SYMBOLIC: (offset,size) is symbolic with offset+size <= 40 (all 861 pairs in
 *       one query), data buffers are heap objects of exactly `size` bytes.
 *   otherwise OFF and SIZE are concrete and the buffers are exactly sized arrays.
 * State, data and prior output contents are symbolic. */
#include "vh.h"
#include "spec.h"
#include "lockstep.h"
#include <ascon/permutation.h>
#include <stdlib.h>

void harness(void)
{
    uint64_t x[5], y[5];
    uint8_t b[40], nb[40];
    ascon_state_t s;
    unsigned i, off, size;
    int ok = 1, okout = 1;
    for (i = 0; i < 5; ++i) x[i] = nondet_u64();
    for (i = 0; i < 40; ++i) b[i] = sx_get(x, i);
#ifdef SYMBOLIC
    off = nondet_u32(); size = nondet_u32();
    ASSUME(off <= 40 && size <= 40 && off + size <= 40);
    uint8_t *in = malloc(size), *out = malloc(size);
    ASSUME(in != 0 && out != 0);
#else
    off = OFF; size = SIZE;
    uint8_t in_[SIZE > 0 ? SIZE : 1], out_[SIZE > 0 ? SIZE : 1];
    uint8_t *in = in_, *out = out_;
#endif
    uint8_t din[40];
    for (i = 0; i < 40; ++i) din[i] = nondet_uchar();
    for (i = 0; i < size; ++i) { in[i] = din[i]; out[i] = nondet_uchar(); }
    ls_from_canon(&s, x);
    for (i = 0; i < 40; ++i) nb[i] = b[i];

#if OP == 0
    ascon_add_bytes(&s, in, off, size);
    for (i = 0; i < size; ++i) nb[off + i] = b[off + i] ^ din[i];
#elif OP == 1
    ascon_overwrite_bytes(&s, in, off, size);
    for (i = 0; i < size; ++i) nb[off + i] = din[i];
#elif OP == 2
    ascon_overwrite_with_zeroes(&s, off, size);
    for (i = 0; i < size; ++i) nb[off + i] = 0;
#elif OP == 3
    ascon_extract_bytes(&s, out, off, size);
    for (i = 0; i < size; ++i) okout &= (out[i] == b[off + i]);
#elif OP == 4
    ascon_extract_and_add_bytes(&s, in, out, off, size);
    for (i = 0; i < size; ++i) okout &= (out[i] == (uint8_t)(din[i] ^ b[off + i]));
#elif OP == 5
    ascon_extract_and_overwrite_bytes(&s, in, out, off, size);
    for (i = 0; i < size; ++i) { okout &= (out[i] == (uint8_t)(din[i] ^ b[off + i])); nb[off + i] = din[i]; }
#elif OP == 6
    ascon_extract_and_overwrite_bytes(&s, in, in, off, size);
    for (i = 0; i < size; ++i) { okout &= (in[i] == (uint8_t)(din[i] ^ b[off + i])); nb[off + i] = din[i]; }
#elif OP == 7
    ascon_init(&s);
    for (i = 0; i < 40; ++i) nb[i] = 0;
#elif OP == 8
    {
        ascon_state_t d;
        uint64_t z[5];
        for (i = 0; i < 5; ++i) z[i] = nondet_u64();
        ls_from_canon(&d, z);
        ascon_copy(&d, &s);
        ls_to_canon(&d, z);
        for (i = 0; i < 40; ++i) okout &= (sx_get(z, i) == b[i]);
    }
#endif
    ls_to_canon(&s, y);
    for (i = 0; i < 40; ++i) ok &= (sx_get(y, i) == nb[i]);
    CHECK(ok, "state bytes after the operation equal the byte-array model (bytes outside the range unchanged)");
    CHECK(okout, "output bytes equal the byte-array model");
#if OP != 6
    { int same = 1; for (i = 0; i < size; ++i) same &= (in[i] == din[i]); CHECK(same, "input buffer not modified"); }
#endif
    WITNESS();
}
