/* C08: ascon_permute(state, ROUND) == p^(12-ROUND) of the specification for all 2^320 states.
 * VIA=0: state written/read through the layout model of the back end (lockstep.c)
 * VIA=1: state written/read through the public byte interface
 *        (ascon_init, ascon_overwrite_bytes, ascon_extract_bytes)
 * ROUND is concrete (one query per start round, DESIGN 2.1). */
#include "vh.h"
#include "spec.h"
#include "lockstep.h"
#include <ascon/permutation.h>

void harness(void)
{
    uint64_t x[5], y[5];
    ascon_state_t s;
    unsigned i;
    int ok = 1;
    for (i = 0; i < 5; ++i) x[i] = nondet_u64();
#if VIA == 1
    {
        uint8_t in[40], out[40];
        for (i = 0; i < 40; ++i) in[i] = sx_get(x, i);
        ascon_init(&s);
        ascon_overwrite_bytes(&s, in, 0, 40);
        ascon_permute(&s, ROUND);
        ascon_extract_bytes(&s, out, 0, 40);
        for (i = 0; i < 5; ++i) y[i] = 0;
        for (i = 0; i < 40; ++i) sx_set(y, i, out[i]);
    }
#else
    ls_from_canon(&s, x);
    ascon_permute(&s, ROUND);
    ls_to_canon(&s, y);
#endif
    spec_permute(x, ROUND);
    for (i = 0; i < 5; ++i) ok &= (x[i] == y[i]);
    CHECK(ok, "permutation equals specification");
    WITNESS();
}
