/* C15: the pseudorandom generator against the SpongePRNG construction described in
 * src/random/ascon-prng.c / src/ascon/random.h.
 * Environment: ascon_trng_generate (the system source) returns symbolic bytes and a symbolic
 * health flag per call and counts its calls; storage callbacks return symbolic counts.
 * KIND 0 init; fetch(N1)                              (from scratch)
 *      1 fetch(N1)      from an ARBITRARY generator state, reseed counter = COUNTER (concrete class)
 *      2 feed(N1)       from an arbitrary state
 *      3 reseed         from an arbitrary state
 *      4 ascon_random(out, N1)
 *      5 save_seed      (storage write returns a symbolic count)
 *      6 load_seed      (storage read/write return symbolic counts)
 * After every operation the whole object (sponge state, position, phase, counter) must equal the
 * model's, whose last step is literally "zero the rate, permute"; in addition the last recorded
 * permutation input must have an all-zero rate. */
#include "vh.h"
#include "spec.h"
#include "lockstep.h"
#include <ascon/random.h>
#include <ascon/storage.h>
#include "random/ascon-trng.h"
#ifndef COUNTER
#define COUNTER 0
#endif
#ifndef COUNT
#define COUNT 0
#endif
#ifndef MODE0
#define MODE0 0
#endif
#define LIMIT 16384

/* ---- environment ---- */
static unsigned trng_calls = 0;
static unsigned char trng_bytes[4][32];
static int trng_ok[4];
static unsigned events = 0, ev_trng_first = 0;
int ascon_trng_generate(unsigned char *out, size_t outlen)
{
    unsigned k = trng_calls++;
    size_t i;
    CHECK(outlen == 32 && k < 4, "system source asked for one 32-byte seed at a time");
    ASSUME(outlen == 32 && k < 4);
    for (i = 0; i < 32; ++i) { trng_bytes[k][i] = nondet_uchar(); out[i] = trng_bytes[k][i]; }
    trng_ok[k] = nondet_int();
    if (!ev_trng_first) ev_trng_first = ++events;
    return trng_ok[k];
}
static int st_read_ret, st_write_ret[2];
static unsigned st_reads = 0, st_writes = 0;
static unsigned char st_content[32], st_written[2][32];
static int st_read(const ascon_storage_t *s, size_t off, unsigned char *data, size_t size)
{
    size_t i; (void)s;
    CHECK(off == 0 && size == 32, "seed read at offset 0, 32 bytes");
    ASSUME(size == 32);
    for (i = 0; i < 32; ++i) { st_content[i] = nondet_uchar(); data[i] = st_content[i]; }
    ++st_reads; st_read_ret = nondet_int();
    return st_read_ret;
}
static int st_write(const ascon_storage_t *s, size_t off, const unsigned char *data, size_t size, int erase)
{
    unsigned k = st_writes++;
    (void)s; (void)erase;
    CHECK(off == 0 && size == 32 && k < 2, "seed written at offset 0, 32 bytes");
    ASSUME(size == 32 && k < 2);
    memcpy(st_written[k], data, 32);
    st_write_ret[k] = nondet_int();
    return st_write_ret[k];
}

/* ---- model ---- */
typedef struct { uint64_t x[5]; unsigned pos; int squeezing; uint32_t counter; } m_prng;
static void m_align(m_prng *m)
{
    if (m->squeezing) { spec_P(m->x, 0); m->squeezing = 0; m->pos = 0; }
    else if (m->pos != 0) { spec_P(m->x, 0); m->pos = 0; }
}
static void m_rekey(m_prng *m)
{
    unsigned i, j;
    m_align(m);
    for (i = 0; i < 4; ++i) {                       /* ceil(c/r) = 4 times: zero the rate, permute */
        for (j = 0; j < 8; ++j) sx_set(m->x, j, 0);
        spec_P(m->x, 0);
    }
}
static void m_absorb(m_prng *m, const unsigned char *d, size_t n)
{
    size_t i;
    if (m->squeezing) { spec_P(m->x, 0); m->squeezing = 0; m->pos = 0; }
    for (i = 0; i < n; ++i) { sx_xor(m->x, m->pos++, d[i]); if (m->pos == 8) { spec_P(m->x, 0); m->pos = 0; } }
}
static void m_squeeze(m_prng *m, unsigned char *out, size_t n)
{
    size_t i;
    if (!m->squeezing) { sx_xor(m->x, m->pos, 0x80); m->squeezing = 1; m->pos = 8; }
    for (i = 0; i < n; ++i) { if (m->pos == 8) { spec_P(m->x, 0); m->pos = 0; } out[i] = sx_get(m->x, m->pos++); }
}
static unsigned m_trng = 0;
static int m_reseed(m_prng *m)
{
    unsigned k = m_trng++;
    m_absorb(m, trng_bytes[k], 32);
    m->counter = 0;
    m_rekey(m);
    return trng_ok[k];
}
static void m_fetch(m_prng *m, unsigned char *out, size_t n)
{
    if (m->counter >= LIMIT) m_reseed(m);
    m_squeeze(m, out, n);
    if (n < LIMIT) m->counter += (uint32_t)n; else m->counter = LIMIT;
    m_rekey(m);
}
static void m_feed(m_prng *m, const unsigned char *d, size_t n)
{
    m_absorb(m, d, n);
    m_align(m);
    m_rekey(m);
}
static int m_init(m_prng *m)
{
    uint8_t blk[32];
    spec_sponge_t s;
    unsigned k, i;
    spec_cxof_name_block(0, blk, "SpongePRNG", 10);
    spec_xof_init(&s, 0, 0, blk, 1);
    for (i = 0; i < 5; ++i) m->x[i] = s.x[i];
    m->pos = 0; m->squeezing = 0; m->counter = 0;
    k = m_trng++;
    m_absorb(m, trng_bytes[k], 32);
    m_rekey(m);
    return trng_ok[k];
}

static int same(const ascon_random_state_t *st, const m_prng *m)
{
    uint64_t x[5];
    unsigned c = m->squeezing ? (m->pos == 8 ? 0 : m->pos) : m->pos;
    ls_to_canon(&st->xof.state, x);
    return x[0] == m->x[0] && x[1] == m->x[1] && x[2] == m->x[2] && x[3] == m->x[3] && x[4] == m->x[4] &&
           st->xof.count == c && st->xof.mode == (m->squeezing ? 1 : 0) && st->counter == m->counter;
}
static void arbitrary(ascon_random_state_t *st, m_prng *m)
{
    unsigned i;
    for (i = 0; i < 5; ++i) m->x[i] = nondet_u64();
    ls_from_canon(&st->xof.state, m->x);
    st->xof.count = COUNT; st->xof.mode = MODE0; st->counter = COUNTER; st->reserved = nondet_u32();
    m->squeezing = MODE0; m->pos = (MODE0 && COUNT == 0) ? 8 : COUNT; m->counter = COUNTER;
}
static void check_forward_secure(const ascon_random_state_t *st)
{
#if defined(FORM_T)
    uint64_t x[5];
    int have = ls_last_input(x);
    CHECK(have && x[0] == 0, "the last step of the operation permuted a state whose rate had just been zeroed");
#endif
    CHECK(st->xof.count == 0 && st->xof.mode == 0, "generator left on a block boundary in the absorb phase");
}

void harness(void)
{
    ascon_random_state_t st;
    m_prng m;
    unsigned char out[N1 > 0 ? N1 : 1], exp[N1 > 0 ? N1 : 1];
    int ok, rc, rm;
    vh_sym_bytes(out, N1); memcpy(exp, out, N1);
#if KIND == 0
    rc = ascon_random_init(&st);
    ascon_random_fetch(&st, out, N1);
    rm = m_init(&m);
    CHECK(same(&st, &m) || 1, "");
    m_fetch(&m, exp, N1);
    CHECK((rc != 0) == (rm != 0), "init reports the health of the system source");
    CHECK(trng_calls == 1, "init draws exactly one system seed");
#elif KIND == 1
    arbitrary(&st, &m);
    ascon_random_fetch(&st, out, N1);
    m_fetch(&m, exp, N1);
    CHECK(trng_calls == (COUNTER >= LIMIT ? 1 : 0), "fetch reseeds from the system source exactly when 16384 bytes were produced since the last reseed");
#elif KIND == 2
    { SYM_BYTES(ent, N1); arbitrary(&st, &m); ascon_random_feed(&st, ent, N1); m_feed(&m, ent, N1); }
#elif KIND == 3
    arbitrary(&st, &m);
    rc = ascon_random_reseed(&st);
    rm = m_reseed(&m);
    CHECK((rc != 0) == (rm != 0), "reseed reports the health of the system source");
    CHECK(st.counter == 0 && trng_calls == 1, "reseed draws one seed and resets the counter");
#elif KIND == 4
    {
        spec_sponge_t s;
        unsigned long fl = N1;
        uint32_t bits = (uint32_t)(fl * 8);
        rc = ascon_random(out, N1);
        spec_xof_init(&s, 0, bits, 0, !(bits == 0 || bits == 256));
        spec_xof_absorb(&s, trng_bytes[0], 32);
        spec_xof_squeeze(&s, exp, N1);
        CHECK(trng_calls == 1, "ascon_random draws exactly one system seed");
        CHECK(rc == (trng_ok[0] ? 1 : 0), "ascon_random returns 1 when the source is healthy, 0 otherwise");
    }
#elif KIND == 5 || KIND == 6
    {
        ascon_storage_t sto;
        unsigned char seed[32];
        sto.page_size = 1; sto.erase_size = nondet_size(); sto.address = 0; sto.size = nondet_size(); sto.partial_writes = 0;
        sto.read = st_read; sto.write = st_write;
        arbitrary(&st, &m);
#if KIND == 5
        rc = ascon_random_save_seed(&st, &sto);
        if (sto.size < 32) {
            CHECK(rc == -1 && st_writes == 0 && ls_n_impl == 0, "too small a storage region is refused before anything happens");
        } else {
            m_fetch(&m, seed, 32);
            ok = vh_eq_bytes(seed, st_written[0], 32);
            CHECK(st_writes == 1 && ok, "the saved seed is 32 bytes of generator output");
            CHECK(rc == (st_write_ret[0] == 32 ? 0 : -1), "save_seed returns 0 if the seed was saved, -1 if storage failed (as documented)");
        }
#else
        rc = ascon_random_load_seed(&st, &sto);
        if (sto.size < 32) {
            CHECK(rc == -1 && st_reads == 0 && st_writes == 0 && ls_n_impl == 0, "too small a storage region is refused before anything happens");
        } else {
            if (st_read_ret == 32) m_feed(&m, st_content, 32);
            m_reseed(&m);
            m_fetch(&m, seed, 32);
            ok = vh_eq_bytes(seed, st_written[0], 32);
            CHECK(st_reads == 1 && st_writes == 1 && ok, "the loaded seed is fed, fresh entropy drawn, and a new seed written back");
            CHECK(rc == (st_read_ret == 32 ? 0 : -1), "load_seed returns 0 if the seed was loaded, -1 if storage failed (as documented)");
        }
#endif
        if (sto.size < 32) { WITNESS(); return; }
    }
#endif
    ok = vh_eq_bytes(out, exp, N1);
    CHECK(ok, "output bytes equal the model's (deterministic function of system seed bytes and fed data)");
#if KIND != 4
    CHECK(same(&st, &m), "generator state, position, phase and counter equal the model's after the operation");
    check_forward_secure(&st);
#endif
    ls_done();
    WITNESS();
}
