/* C15: the reseed rule for ALL 2^32 counter values and ALL 2^64 request sizes.
 * The sponge operations are replaced by event-recording stubs (their data loops are irrelevant
 * to the rule), so counter and outlen can stay fully symbolic. */
#include "vh.h"
#include <ascon/random.h>
#include "random/ascon-trng.h"
static unsigned events = 0, ev_trng = 0, ev_squeeze = 0, n_trng = 0, n_squeeze = 0;
static size_t squeeze_len;
int ascon_trng_generate(unsigned char *out, size_t outlen) { (void)out; (void)outlen; ++n_trng; if (!ev_trng) ev_trng = ++events; return nondet_int(); }
void ascon_xof_squeeze(ascon_xof_state_t *s, unsigned char *out, size_t outlen) { (void)s; (void)out; ++n_squeeze; squeeze_len = outlen; if (!ev_squeeze) ev_squeeze = ++events; }
void ascon_xof_absorb(ascon_xof_state_t *s, const unsigned char *in, size_t inlen) { (void)s; (void)in; (void)inlen; }
void ascon_xof_pad(ascon_xof_state_t *s) { (void)s; }
void ascon_xof_init_custom(ascon_xof_state_t *s, const char *fn, const unsigned char *c, size_t cl, size_t ol) { (void)s; (void)fn; (void)c; (void)cl; (void)ol; }
void ascon_xof_free(ascon_xof_state_t *s) { (void)s; }
void ascon_permute(ascon_state_t *s, uint8_t r) { (void)s; (void)r; }
void ascon_overwrite_with_zeroes(ascon_state_t *s, unsigned o, unsigned n) { (void)s; (void)o; (void)n; }
void ascon_acquire(ascon_state_t *s) { (void)s; }
void ascon_release(ascon_state_t *s) { (void)s; }
int ascon_random(unsigned char *out, size_t outlen) { (void)out; (void)outlen; return 1; }
void ascon_clean(void *buf, unsigned size) { (void)buf; (void)size; }

void harness(void)
{
    ascon_random_state_t st;
    uint32_t c0 = nondet_u32();
    size_t n = nondet_size();
    unsigned char dummy[1];
    st.counter = c0; st.reserved = 0; st.xof.count = 0; st.xof.mode = 0;
    ascon_random_fetch(&st, dummy, n);
    CHECK(n_squeeze == 1 && squeeze_len == n, "exactly the requested number of bytes is produced");
    CHECK((n_trng == 1) == (c0 >= 16384) && n_trng <= 1, "the system source is consulted exactly when 16384 or more bytes were produced since the last reseed");
    CHECK(n_trng == 0 || ev_trng < ev_squeeze, "fresh entropy is drawn BEFORE more output is produced");
    {
        uint32_t base = c0 >= 16384 ? 0 : c0;
        uint32_t expect = n < 16384 ? base + (uint32_t)n : 16384;
        CHECK(st.counter == expect, "produced-bytes counter advances by the request, saturating at the limit");
    }
    WITNESS();
}
