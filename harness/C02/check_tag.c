/* C02: ascon_aead_check_tag is exact over all pairs of tags and wipes the
 * plaintext exactly on mismatch.  SIZE (0..16) and PLEN concrete. */
#include "vh.h"
#include "aead/ascon-aead-common.h"
void harness(void)
{
    SYM_BYTES(t1, SIZE);
    SYM_BYTES(t2, SIZE);
    SYM_BYTES(p, PLEN);
    unsigned char p0[PLEN > 0 ? PLEN : 1], t1c[SIZE > 0 ? SIZE : 1], t2c[SIZE > 0 ? SIZE : 1];
    unsigned i; int eq, rc, zero = 1, same = 1;
    memcpy(p0, p, PLEN); memcpy(t1c, t1, SIZE); memcpy(t2c, t2, SIZE);
    rc = ascon_aead_check_tag(PLEN > 0 ? p : (unsigned char *)0, PLEN, t1, t2, SIZE);
    eq = vh_eq_bytes(t1c, t2c, SIZE);
    CHECK((rc == 0) == (eq != 0), "returns 0 exactly when the tags are equal");
    CHECK(rc == 0 || rc == -1, "returns 0 or -1");
    for (i = 0; i < PLEN; ++i) { zero &= (p[i] == 0); same &= (p[i] == p0[i]); }
    CHECK(rc == 0 ? same : zero, "plaintext kept on match, zeroed on mismatch");
    same = vh_eq_bytes(t1, t1c, SIZE) && vh_eq_bytes(t2, t2c, SIZE);
    CHECK(same, "tags not modified");
    WITNESS();
}
