/* C17 / C14 for the ISAP and masked cipher classes, at the call interface: the C functions the
 * class forwards to are recording stubs (key objects carry a canonical encoding of the key they
 * were built from), so "the member returns exactly what the corresponding C function returns for
 * the same key, nonce and data" is decided without running ISAP / masked AEAD themselves (their
 * equality with the specification is C06 / C10).
 * CLS 6..8 isap128a/128/80pq   9..11 masked128/128a/80pq ; KEYING / DEC / NLEN / COUNTER as cpp.c */
#include "vh.h"
#include <ascon/isap.h>
#include <ascon/aead-masked.h>
#ifndef COUNTER
#define COUNTER 0
#endif
#ifndef NLEN
#define NLEN 16
#endif
#define ML 9
#define AL 3
#if CLS == 8 || CLS == 11
#define KL 20
#else
#define KL 16
#endif
#define PROTO(n) uint32_t ir_w_##n(uint32_t, uint32_t, uint8_t *, uint64_t, uint8_t *, uint64_t, uint8_t *, uint64_t, uint32_t, uint64_t, \
                                  uint8_t *, uint8_t *, uint8_t *, uint64_t, uint8_t *, uint64_t, uint8_t *, uint8_t *, uint8_t *)
PROTO(isap128a); PROTO(isap128); PROTO(isap80pq); PROTO(masked128); PROTO(masked128a); PROTO(masked80pq);
#if CLS == 6
#define W ir_w_isap128a
#elif CLS == 7
#define W ir_w_isap128
#elif CLS == 8
#define W ir_w_isap80pq
#elif CLS == 9
#define W ir_w_masked128
#elif CLS == 10
#define W ir_w_masked128a
#else
#define W ir_w_masked80pq
#endif

/* ---- recording stubs of the C API ---- */
#define KOBJ 80                       /* bytes of key object content we track */
typedef struct { int fn; unsigned char kobj[KOBJ]; unsigned char npub[16]; unsigned char data[ML + 16]; unsigned char ad[AL]; size_t len, adlen; int rc; unsigned char out[ML + 16]; } call_t;
static call_t calls[2];
static unsigned ncalls = 0;
static int which = -1;      /* family actually called: must match the class */

static void kobj_from_key(void *obj, size_t objsize, const unsigned char *key, size_t kl, unsigned char tag)
{
    unsigned char *p = (unsigned char *)obj; size_t i;
    for (i = 0; i < objsize; ++i) p[i] = (unsigned char)(tag + i);
    for (i = 0; i < kl; ++i) p[i] = key[i];
}
static int do_crypt(int fam, int dec, unsigned char *out, size_t *outlen, const unsigned char *in, size_t inlen,
                    const unsigned char *ad, size_t adlen, const unsigned char *npub, const void *kobj, size_t ksz)
{
    call_t *c; size_t i, n;
    CHECK(ncalls < 2, "at most two C API calls in this harness"); ASSUME(ncalls < 2);
    c = &calls[ncalls++]; which = fam; c->fn = dec;
    memset(c->kobj, 0, KOBJ); memcpy(c->kobj, kobj, ksz < KOBJ ? ksz : KOBJ);
    memcpy(c->npub, npub, 16);
    CHECK(inlen <= ML + 16 && adlen <= AL, "lengths forwarded unchanged"); ASSUME(inlen <= ML + 16 && adlen <= AL);
    if (inlen) memcpy(c->data, in, inlen); c->len = inlen; if (adlen) memcpy(c->ad, ad, adlen); c->adlen = adlen;
    n = dec ? (inlen >= 16 ? inlen - 16 : 0) : inlen + 16;
    for (i = 0; i < n; ++i) { c->out[i] = nondet_uchar(); out[i] = c->out[i]; }
    *outlen = n;
    c->rc = dec ? (nondet_int() ? 0 : -1) : 0;
    return c->rc;
}
#define ISAP_STUBS(v, fam, kl) \
void ascon##v##_isap_aead_init(ascon##v##_isap_aead_key_t *pk, const unsigned char *k) { kobj_from_key(pk, sizeof(*pk), k, kl, 0x11); } \
void ascon##v##_isap_aead_load_key(ascon##v##_isap_aead_key_t *pk, const unsigned char k[ASCON_ISAP_SAVED_KEY_SIZE]) { memcpy(pk, k, 80); } \
void ascon##v##_isap_aead_save_key(ascon##v##_isap_aead_key_t *pk, unsigned char k[ASCON_ISAP_SAVED_KEY_SIZE]) { memcpy(k, pk, 80); } \
void ascon##v##_isap_aead_free(ascon##v##_isap_aead_key_t *pk) { if (pk) memset(pk, 0, sizeof(*pk)); } \
void ascon##v##_isap_aead_encrypt(unsigned char *c, size_t *clen, const unsigned char *m, size_t mlen, const unsigned char *ad, size_t adlen, const unsigned char *npub, const ascon##v##_isap_aead_key_t *pk) \
{ do_crypt(fam, 0, c, clen, m, mlen, ad, adlen, npub, pk, sizeof(*pk)); } \
int ascon##v##_isap_aead_decrypt(unsigned char *m, size_t *mlen, const unsigned char *c, size_t clen, const unsigned char *ad, size_t adlen, const unsigned char *npub, const ascon##v##_isap_aead_key_t *pk) \
{ return do_crypt(fam, 1, m, mlen, c, clen, ad, adlen, npub, pk, sizeof(*pk)); }
ISAP_STUBS(128a, 6, 16) ISAP_STUBS(128, 7, 16) ISAP_STUBS(80pq, 8, 20)
#define MASKED_STUBS(v, fam, KT) \
void ascon##v##_masked_aead_encrypt(unsigned char *c, size_t *clen, const unsigned char *m, size_t mlen, const unsigned char *ad, size_t adlen, const unsigned char *npub, const KT *k) \
{ do_crypt(fam, 0, c, clen, m, mlen, ad, adlen, npub, k, sizeof(*k)); } \
int ascon##v##_masked_aead_decrypt(unsigned char *m, size_t *mlen, const unsigned char *c, size_t clen, const unsigned char *ad, size_t adlen, const unsigned char *npub, const KT *k) \
{ return do_crypt(fam, 1, m, mlen, c, clen, ad, adlen, npub, k, sizeof(*k)); }
MASKED_STUBS(128, 9, ascon_masked_key_128_t) MASKED_STUBS(128a, 10, ascon_masked_key_128_t) MASKED_STUBS(80pq, 11, ascon_masked_key_160_t)
void ascon_masked_key_128_init(ascon_masked_key_128_t *mk, const unsigned char *k) { kobj_from_key(mk, sizeof(*mk), k, 16, 0x22); }
void ascon_masked_key_160_init(ascon_masked_key_160_t *mk, const unsigned char *k) { kobj_from_key(mk, sizeof(*mk), k, 20, 0x33); }
void ascon_masked_key_128_free(ascon_masked_key_128_t *mk) { if (mk) memset(mk, 0, sizeof(*mk)); }
void ascon_masked_key_160_free(ascon_masked_key_160_t *mk) { if (mk) memset(mk, 0, sizeof(*mk)); }
void ascon_masked_key_128_randomize(ascon_masked_key_128_t *mk) { (void)mk; }
void ascon_masked_key_160_randomize(ascon_masked_key_160_t *mk) { (void)mk; }
void ascon_masked_key_128_extract(const ascon_masked_key_128_t *mk, unsigned char *k) { memcpy(k, mk, 16); }
void ascon_masked_key_160_extract(const ascon_masked_key_160_t *mk, unsigned char *k) { memcpy(k, mk, 20); }
void ascon_clean(void *buf, unsigned size) { memset(buf, 0, size); }
void ascon_aead_set_counter(unsigned char npub[16], uint64_t n) { unsigned i; for (i = 0; i < 8; ++i) { npub[i] = 0; npub[8 + i] = (unsigned char)(n >> (56 - 8 * i)); } }
void ascon_aead_increment_nonce(unsigned char npub[16]) { unsigned i, carry = 1; for (i = 16; i > 0; --i) { carry += npub[i - 1]; npub[i - 1] = (unsigned char)carry; carry >>= 8; } }

void harness(void)
{
    SYM_BYTES(key, KL);
    SYM_BYTES(alt, 80);
    SYM_BYTES(nonce, 20);
    SYM_BYTES(in, ML + 16);
    SYM_BYTES(ad, AL);
    uint64_t counter = nondet_u64();
    unsigned char o1[ML + 16], o2[ML + 16], effkey[KL], effn[16], expk[KOBJ];
    int skr = -2, r2 = -2, r1, ok;
    unsigned long sizes[3];
    size_t inlen = DEC ? ML + 16 : ML;
    unsigned i;
    unsigned altlen = (KEYING == 4) ? ALTLEN : (KEYING == 5 ? 80 : 0);
    vh_sym_bytes(o1, ML + 16); vh_sym_bytes(o2, ML + 16);

    r1 = (int)W(KEYING, DEC, key, KL, ((KEYING == 3 || KEYING == 6 || KEYING == 7) && ALTNULL) ? (uint8_t *)0 : alt, altlen, nonce, NLEN, COUNTER, counter,
                o1, o2, in, inlen, ad, AL, (uint8_t *)&skr, (uint8_t *)&r2, (uint8_t *)sizes);

    memset(effkey, 0, KL);
    if (KEYING == 1 || KEYING == 2 || KEYING == 4) memcpy(effkey, key, KL);
    if (COUNTER) { memset(effn, 0, 8); for (i = 0; i < 8; ++i) effn[8 + i] = (unsigned char)(counter >> (56 - 8 * i)); }
    else if (NLEN >= 16) memcpy(effn, nonce, 16);
    else { memset(effn, 0, 16); memcpy(effn + 16 - NLEN, nonce, NLEN); }
    {   /* the key object the C API must be handed */
        unsigned char tmp[256];
        size_t ksz = CLS <= 8 ? 80 : (CLS == 11 ? sizeof(ascon_masked_key_160_t) : sizeof(ascon_masked_key_128_t));
        if (CLS >= 9 && KEYING == 0) memset(tmp, 0, sizeof(tmp));      /* masked default constructor: all-zero shares, a valid sharing of the zero key */
        else if (KEYING == 5) memcpy(tmp, alt, 80);
        else kobj_from_key(tmp, ksz, effkey, KL, CLS <= 8 ? 0x11 : (CLS == 11 ? 0x33 : 0x22));
        memset(expk, 0, KOBJ); memcpy(expk, tmp, ksz < KOBJ ? ksz : KOBJ);
    }
    CHECK(sizes[0] == KL && sizes[1] == 16 && sizes[2] == 16, "key_size/tag_size/nonce_size");
    if (KEYING == 2 || KEYING == 3 || KEYING == 5 || KEYING == 6 || KEYING == 7) CHECK(skr == 1, "set_key accepts a full-length key, a zero length and (ISAP) a saved key");
    if (KEYING == 4) CHECK(skr == 0, "set_key rejects a wrong length with false");
    CHECK(ncalls == 2 && which == CLS, "each member call is forwarded to the C function of the same algorithm");
    ASSUME(ncalls == 2);
    /* first call */
    ok = vh_eq_bytes(calls[0].kobj, expk, KOBJ);
    CHECK(ok, "C function receives the key object built from the documented key");
    ok = vh_eq_bytes(calls[0].npub, effn, 16);
    CHECK(ok, "C function receives the documented nonce");
    ok = calls[0].fn == DEC && calls[0].len == inlen && calls[0].adlen == AL && vh_eq_bytes(calls[0].data, in, inlen) && vh_eq_bytes(calls[0].ad, ad, AL);
    CHECK(ok, "C function receives the caller's data and associated data");
    if (DEC) CHECK(r1 == (calls[0].rc >= 0 ? ML : -1), "decrypt returns the plaintext length on success, -1 on failure");
    else CHECK(r1 == ML + 16, "encrypt returns the ciphertext length");
    ok = vh_eq_bytes(o1, calls[0].out, DEC ? ML : ML + 16);
    CHECK(ok, "output buffer holds exactly what the C function produced");
    /* second call: the nonce the object holds now */
    if (!DEC || calls[0].rc >= 0) { unsigned carry = 1; for (i = 16; i > 0; --i) { carry += effn[i - 1]; effn[i - 1] = (unsigned char)carry; carry >>= 8; } }
    ok = vh_eq_bytes(calls[1].npub, effn, 16);
    CHECK(ok, "stored nonce is N+1 after encrypt or successful decrypt, N after a failed decrypt");
    ok = vh_eq_bytes(calls[1].kobj, expk, KOBJ);
    CHECK(ok, "key object unchanged by the first packet");
    WITNESS();
}
