/* C17: the C++ hash / XOF wrapper classes at the call interface.  The C API is replaced by recording stubs; the scripts
 * of harness/C17/hx_wrap.cpp (clang++ -> LLVM IR -> C) use every documented member once; the recorded call sequence
 * (function, object, lengths, declared output length, data bytes) must be exactly what the documentation of each member
 * says it does, and what the members return must be what the C functions produced.
 * FAM 0 xof<N>  1 xofa<N>  2 hash  3 hasha;  N in {0,16,32,48};  data / custom bytes symbolic, lengths concrete. */
#include "vh.h"
#include <ascon/hash.h>
#include <ascon/xof.h>
#ifndef N
#define N 0
#endif
#define DLEN 5
#define CLEN 3
#define OUTN 7

enum { F_INIT = 1, F_INIT_FIXED, F_INIT_CUSTOM, F_REINIT, F_REINIT_FIXED, F_REINIT_CUSTOM, F_COPY, F_FREE, F_ABSORB, F_SQUEEZE, F_PAD, F_ONESHOT };
typedef struct { int fam, fn, st, st2; uint64_t a, b; const void *p; unsigned char bytes[8]; } rec_t;
#define LOGMAX 32
static rec_t logv[LOGMAX]; static unsigned nlog = 0;
static const void *states[8]; static unsigned nstates = 0;
static unsigned char outtab[LOGMAX][32];
static int sid(const void *p) { unsigned i; for (i = 0; i < nstates; ++i) if (states[i] == p) return (int)i; if (nstates < 8) states[nstates] = p; return (int)nstates++; }
static rec_t *rec(int fam, int fn, const void *st, const void *st2, uint64_t a, uint64_t b, const void *p, const unsigned char *bytes, size_t nb)
{
    rec_t *r = &logv[nlog < LOGMAX ? nlog : LOGMAX - 1]; size_t i;
    r->fam = fam; r->fn = fn; r->st = st ? sid(st) : -1; r->st2 = st2 ? sid(st2) : -1; r->a = a; r->b = b; r->p = p;
    for (i = 0; i < 8; ++i) r->bytes[i] = (bytes && i < nb) ? bytes[i] : 0;
    ++nlog; return r;
}
static void produce(unsigned char *out, size_t n) { size_t i; unsigned k = nlog - 1; for (i = 0; i < n; ++i) out[i] = outtab[k < LOGMAX ? k : 0][i < 32 ? i : 0]; }

#define XOF_STUBS(pfx, fam) \
void pfx##_init(pfx##_state_t *s) { rec(fam, F_INIT, s, 0, 0, 0, 0, 0, 0); } \
void pfx##_init_fixed(pfx##_state_t *s, size_t outlen) { rec(fam, F_INIT_FIXED, s, 0, outlen, 0, 0, 0, 0); } \
void pfx##_init_custom(pfx##_state_t *s, const char *fname, const unsigned char *c, size_t clen, size_t outlen) { rec(fam, F_INIT_CUSTOM, s, 0, outlen, clen, fname, c, clen); } \
void pfx##_reinit(pfx##_state_t *s) { rec(fam, F_REINIT, s, 0, 0, 0, 0, 0, 0); } \
void pfx##_reinit_fixed(pfx##_state_t *s, size_t outlen) { rec(fam, F_REINIT_FIXED, s, 0, outlen, 0, 0, 0, 0); } \
void pfx##_reinit_custom(pfx##_state_t *s, const char *fname, const unsigned char *c, size_t clen, size_t outlen) { rec(fam, F_REINIT_CUSTOM, s, 0, outlen, clen, fname, c, clen); } \
void pfx##_free(pfx##_state_t *s) { rec(fam, F_FREE, s, 0, 0, 0, 0, 0, 0); } \
void pfx##_absorb(pfx##_state_t *s, const unsigned char *in, size_t len) { rec(fam, F_ABSORB, s, 0, len, 0, 0, in, len); } \
void pfx##_squeeze(pfx##_state_t *s, unsigned char *out, size_t len) { rec(fam, F_SQUEEZE, s, 0, len, 0, 0, 0, 0); produce(out, len); } \
void pfx##_pad(pfx##_state_t *s) { rec(fam, F_PAD, s, 0, 0, 0, 0, 0, 0); } \
void pfx##_copy(pfx##_state_t *d, const pfx##_state_t *s) { rec(fam, F_COPY, d, s, 0, 0, 0, 0, 0); }
XOF_STUBS(ascon_xof, 0)
XOF_STUBS(ascon_xofa, 1)
#define HASH_STUBS(pfx, fam) \
void pfx##_init(pfx##_state_t *s) { rec(fam, F_INIT, s, 0, 0, 0, 0, 0, 0); } \
void pfx##_reinit(pfx##_state_t *s) { rec(fam, F_REINIT, s, 0, 0, 0, 0, 0, 0); } \
void pfx##_free(pfx##_state_t *s) { rec(fam, F_FREE, s, 0, 0, 0, 0, 0, 0); } \
void pfx##_update(pfx##_state_t *s, const unsigned char *in, size_t len) { rec(fam, F_ABSORB, s, 0, len, 0, 0, in, len); } \
void pfx##_finalize(pfx##_state_t *s, unsigned char *out) { rec(fam, F_SQUEEZE, s, 0, 32, 0, 0, 0, 0); produce(out, 32); } \
void pfx##_copy(pfx##_state_t *d, const pfx##_state_t *s) { rec(fam, F_COPY, d, s, 0, 0, 0, 0, 0); } \
void pfx(unsigned char *out, const unsigned char *in, size_t len) { rec(fam, F_ONESHOT, 0, 0, len, 0, 0, in, len); produce(out, 32); }
HASH_STUBS(ascon_hash, 2)
HASH_STUBS(ascon_hasha, 3)

#define XSD(name) void ir_##name(const unsigned char *data, uint64_t len, const char *str, const char *fname, const unsigned char *custom, uint64_t customlen, unsigned char *out, uint64_t n);
XSD(hx_xof_0) XSD(hx_xof_16) XSD(hx_xof_32) XSD(hx_xof_48) XSD(hx_xofa_0) XSD(hx_xofa_16) XSD(hx_xofa_32) XSD(hx_xofa_48)
void ir_hx_hash(const unsigned char *data, uint64_t len, const char *str, unsigned char *out);
void ir_hx_hasha(const unsigned char *data, uint64_t len, const char *str, unsigned char *out);

static unsigned ek = 0; static int eok = 1, edata = 1;
static void expect(int fn, int st, int st2, uint64_t a, uint64_t b, const void *p, const unsigned char *bytes, size_t nb)
{
    rec_t *r = &logv[ek < LOGMAX ? ek : LOGMAX - 1]; size_t i;
    eok &= (ek < nlog && r->fam == FAM && r->fn == fn && r->st == st && r->st2 == st2 && r->a == a && r->b == b && r->p == p);
    for (i = 0; i < 8 && i < nb; ++i) edata &= (r->bytes[i] == bytes[i]);
    ++ek;
}

void harness(void)
{
    unsigned char data[DLEN], custom[CLEN], out[160];
    static const char str[] = "abc", fname[] = "fn";
    unsigned i, k; int ok = 1;
    for (i = 0; i < DLEN; ++i) data[i] = nondet_uchar();
    for (i = 0; i < CLEN; ++i) custom[i] = nondet_uchar();
    for (k = 0; k < LOGMAX; ++k) for (i = 0; i < 32; ++i) outtab[k][i] = nondet_uchar();
#if FAM <= 1
#if FAM == 0 && N == 0
    ir_hx_xof_0
#elif FAM == 0 && N == 16
    ir_hx_xof_16
#elif FAM == 0 && N == 32
    ir_hx_xof_32
#elif FAM == 0
    ir_hx_xof_48
#elif N == 0
    ir_hx_xofa_0
#elif N == 16
    ir_hx_xofa_16
#elif N == 32
    ir_hx_xofa_32
#else
    ir_hx_xofa_48
#endif
        (data, DLEN, str, fname, custom, CLEN, out, OUTN);
    if (N == 0) expect(F_INIT, 0, -1, 0, 0, 0, 0, 0); else expect(F_INIT_FIXED, 0, -1, N, 0, 0, 0, 0);           /* X a */
    expect(F_ABSORB, 0, -1, DLEN, 0, 0, data, DLEN);                                                             /* a.absorb(data, len) */
    expect(F_SQUEEZE, 0, -1, OUTN, 0, 0, 0, 0);                                                                  /* a.squeeze(out, n) */
    for (i = 0; i < OUTN; ++i) ok &= (out[i] == outtab[2][i]);
    if (N == 0) expect(F_REINIT, 0, -1, 0, 0, 0, 0, 0); else expect(F_REINIT_FIXED, 0, -1, N, 0, 0, 0, 0);       /* a.reset() */
    expect(F_ABSORB, 0, -1, 3, 0, 0, (const unsigned char *)str, 3);                                             /* a.absorb("abc"); absorb(NULL) does nothing */
    expect(F_PAD, 0, -1, 0, 0, 0, 0, 0);                                                                         /* a.pad() */
    expect(F_SQUEEZE, 0, -1, OUTN, 0, 0, 0, 0);                                                                  /* a.squeeze(n) -> byte_array */
    for (i = 0; i < OUTN; ++i) ok &= (out[OUTN + i] == outtab[6][i]);
    expect(F_COPY, 1, 0, 0, 0, 0, 0, 0);                                                                         /* X b(a) */
    expect(F_ABSORB, 1, -1, DLEN, 0, 0, data, DLEN);                                                             /* b.absorb(byte_array) */
    if (N == 0) expect(F_INIT, 2, -1, 0, 0, 0, 0, 0); else expect(F_INIT_FIXED, 2, -1, N, 0, 0, 0, 0);           /* X c */
    expect(F_FREE, 2, -1, 0, 0, 0, 0, 0); expect(F_COPY, 2, 1, 0, 0, 0, 0, 0);                                   /* c = b;  c = c does nothing */
    expect(F_SQUEEZE, 2, -1, OUTN, 0, 0, 0, 0);
    for (i = 0; i < OUTN; ++i) ok &= (out[2 * OUTN + i] == outtab[12][i]);
    expect(F_INIT_CUSTOM, 3, -1, N, CLEN, fname, custom, CLEN);                                                  /* X d(fname, custom, customlen) */
    expect(F_SQUEEZE, 3, -1, OUTN, 0, 0, 0, 0);
    for (i = 0; i < OUTN; ++i) ok &= (out[3 * OUTN + i] == outtab[14][i]);
    expect(F_INIT_CUSTOM, 4, -1, N, CLEN, fname, custom, CLEN);                                                  /* X e(fname, byte_array) */
    expect(F_SQUEEZE, 4, -1, OUTN, 0, 0, 0, 0);
    for (i = 0; i < OUTN; ++i) ok &= (out[4 * OUTN + i] == outtab[16][i]);
    expect(F_INIT_CUSTOM, 5, -1, N, 0, fname, 0, 0);                                                             /* X f(fname) */
    for (i = 0; i < 6; ++i) expect(F_FREE, 5 - (int)i, -1, 0, 0, 0, 0, 0);                                       /* destructors, reverse order */
#else
#if FAM == 2
    ir_hx_hash(data, DLEN, str, out);
#else
    ir_hx_hasha(data, DLEN, str, out);
#endif
    expect(F_INIT, 0, -1, 0, 0, 0, 0, 0);
    expect(F_ABSORB, 0, -1, DLEN, 0, 0, data, DLEN);
    expect(F_SQUEEZE, 0, -1, 32, 0, 0, 0, 0);
    for (i = 0; i < 32; ++i) ok &= (out[i] == outtab[2][i]);
    expect(F_REINIT, 0, -1, 0, 0, 0, 0, 0);
    expect(F_ABSORB, 0, -1, 3, 0, 0, (const unsigned char *)str, 3);
    expect(F_ABSORB, 0, -1, DLEN, 0, 0, data, DLEN);
    expect(F_SQUEEZE, 0, -1, 32, 0, 0, 0, 0);
    for (i = 0; i < 32; ++i) ok &= (out[32 + i] == outtab[6][i]);
    expect(F_COPY, 1, 0, 0, 0, 0, 0, 0);
    expect(F_INIT, 2, -1, 0, 0, 0, 0, 0);
    expect(F_FREE, 2, -1, 0, 0, 0, 0, 0); expect(F_COPY, 2, 1, 0, 0, 0, 0, 0);
    expect(F_SQUEEZE, 2, -1, 32, 0, 0, 0, 0);
    for (i = 0; i < 32; ++i) ok &= (out[64 + i] == outtab[11][i]);
    expect(F_ONESHOT, -1, -1, DLEN, 0, 0, data, DLEN);
    for (i = 0; i < 32; ++i) ok &= (out[96 + i] == outtab[12][i]);
    for (i = 0; i < 3; ++i) expect(F_FREE, 2 - (int)i, -1, 0, 0, 0, 0, 0);
#endif
    CHECK(eok, "every member calls the documented C function on its own state with the documented arguments (function, object, lengths, declared output length, name pointer)");
    CHECK(edata, "the data / customisation bytes handed to the C function are the caller's bytes");
    CHECK(nlog == ek, "no further C calls are made");
    CHECK(ok, "what the members return is what the C functions produced");
    WITNESS();
}
