/* C17 / C14 / C13: extern "C" entry points that drive the documented members of the C++ cipher
 * classes.  Compiled by clang++ together with src/cplusplus/ *.cpp to LLVM IR, translated to C
 * (enc/llvm) and compared with direct C API calls by harness/C17/cpp.c.  Building this file IS
 * the "compiles when used" half of C17.
 * KEYING: 0 default constructor          1 key constructor
 *         2 default ctor + set_key(key, full length)     3 set_key(key, 0)  (all-zero key)
 *         4 set_key(key, wrong length) after set_key(full)   5 (ISAP) saved key via set_key(saved, 80)
 *         6 set_key(full) then set_key(p, 0)                  7 key constructor then set_key(p, 0) */
#include <ascon/aead.h>
#include <ascon/aead-masked.h>
#include <ascon/siv.h>
#include <ascon/isap.h>
#include <string.h>

template <class C, size_t KL> static inline C *construct(void *mem, int keying, const unsigned char *key);

template <class C> struct ctor_traits {
    static C *with_key(void *mem, const unsigned char *key, size_t kl) { (void)kl; return new (mem) C(key); }
};
#define ISAP_TRAITS(C) template <> struct ctor_traits<ascon::C> { \
    static ascon::C *with_key(void *mem, const unsigned char *key, size_t kl) { return new (mem) ascon::C(key, kl); } };
ISAP_TRAITS(isap128a) ISAP_TRAITS(isap128) ISAP_TRAITS(isap80pq)

/* two packets through one object; returns the first result, set_key result in *skr, second result in *r2 */
template <class C>
static int run(int keying, int dec, const unsigned char *key, size_t kl, const unsigned char *alt, size_t altlen,
               const unsigned char *nonce, size_t nlen, int use_counter, unsigned long long counter,
               unsigned char *out1, unsigned char *out2, const unsigned char *in, size_t len,
               const unsigned char *ad, size_t adlen, int *skr, int *r2, unsigned long *sizes)
{
    alignas(16) unsigned char mem[sizeof(C)];
    C *obj;
    int r1;
    *skr = -1;
    if (keying == 1 || keying == 7) obj = ctor_traits<C>::with_key(mem, key, kl);
    else obj = new (mem) C();
    if (keying == 2) *skr = obj->set_key(key, kl);
    if (keying == 3) *skr = obj->set_key(alt, 0);
    if (keying == 4) { obj->set_key(key, kl); *skr = obj->set_key(alt, altlen); }
    if (keying == 5) *skr = obj->set_key(alt, altlen);
    if (keying == 6) { obj->set_key(key, kl); *skr = obj->set_key(alt, 0); }   /* good key first, then the zero-length form */
    if (keying == 7) *skr = obj->set_key(alt, 0);                              /* key constructor was used (keying 1 path) below */
    /* the object holds some other nonce first, so that "short nonces are left-padded with zeros" is visible */
    { static const unsigned char prior[16] = { 0xA5, 0x5A, 0x11, 0x22, 0x33, 0x44, 0x55, 0x66, 0x77, 0x88, 0x99, 0xAA, 0xBB, 0xCC, 0xDD, 0xEE }; obj->set_nonce(prior, 16); }
    if (use_counter) obj->set_counter(counter); else obj->set_nonce(nonce, nlen);
    sizes[0] = obj->key_size(); sizes[1] = obj->tag_size(); sizes[2] = obj->nonce_size();
    if (dec) r1 = obj->decrypt(out1, in, len, ad, adlen);
    else r1 = obj->encrypt(out1, in, len, ad, adlen);
    /* a second packet shows which nonce the object holds now */
    *r2 = obj->encrypt(out2, in, dec ? (len >= 16 ? len - 16 : 0) : len, ad, adlen);
    obj->~C();
    return r1;
}

#define WRAP(NAME, C) extern "C" int w_##NAME(int keying, int dec, const unsigned char *key, unsigned long kl, const unsigned char *alt, unsigned long altlen, \
    const unsigned char *nonce, unsigned long nlen, int use_counter, unsigned long long counter, unsigned char *out1, unsigned char *out2, \
    const unsigned char *in, unsigned long len, const unsigned char *ad, unsigned long adlen, int *skr, int *r2, unsigned long *sizes) \
{ return run<ascon::C>(keying, dec, key, kl, alt, altlen, nonce, nlen, use_counter, counter, out1, out2, in, len, ad, adlen, skr, r2, sizes); }

WRAP(aead128, aead128) WRAP(aead128a, aead128a) WRAP(aead80pq, aead80pq)
WRAP(siv128, siv128) WRAP(siv128a, siv128a) WRAP(siv80pq, siv80pq)
WRAP(isap128a, isap128a) WRAP(isap128, isap128) WRAP(isap80pq, isap80pq)
WRAP(masked128, aead128_masked) WRAP(masked128a, aead128a_masked) WRAP(masked80pq, aead80pq_masked)

/* ISAP: saved key of an object keyed with `key` */
#define SAVE(NAME, C) extern "C" void w_##NAME##_save(const unsigned char *key, unsigned long kl, unsigned char *saved) \
{ alignas(16) unsigned char mem[sizeof(ascon::C)]; ascon::C *o = new (mem) ascon::C(key, kl); o->save_key(saved); o->~C(); }
SAVE(isap128a, isap128a) SAVE(isap128, isap128) SAVE(isap80pq, isap80pq)

/* C13: destructor and clear() leave nothing in the object's storage */
#define WIPE(NAME, C) extern "C" void w_##NAME##_wipe(int use_clear, const unsigned char *key, unsigned long kl, const unsigned char *nonce, unsigned char *storage_out) \
{ alignas(16) unsigned char mem[sizeof(ascon::C)]; ascon::C *o = ctor_traits<ascon::C>::with_key(mem, key, kl); o->set_nonce(nonce, 16); \
  if (use_clear) o->clear(); else o->~C(); memcpy(storage_out, mem, sizeof(ascon::C)); if (use_clear) o->~C(); } \
extern "C" unsigned long w_##NAME##_sizeof(void) { return sizeof(ascon::C); }
WIPE(aead128, aead128) WIPE(aead128a, aead128a) WIPE(aead80pq, aead80pq)
WIPE(siv128, siv128) WIPE(siv128a, siv128a) WIPE(siv80pq, siv80pq)
WIPE(isap128a, isap128a) WIPE(isap128, isap128) WIPE(isap80pq, isap80pq)
WIPE(masked128, aead128_masked) WIPE(masked128a, aead128a_masked) WIPE(masked80pq, aead80pq_masked)

/* C13, destructor at the end of a real scope: the object is an automatic variable, its address escapes to the
 * harness (verif_register) and the harness looks at the storage (verif_observe) AFTER the lifetime has ended.
 * For the optimiser every store into the dying object that is not followed by a legal read is dead: a wipe done
 * with plain memset / assignments is removed, a wipe through ascon_clean (opaque call) stays. */
extern "C" void verif_register(void *p, unsigned long n);
extern "C" void verif_observe(void);
extern "C" void verif_use(void *p);
#define SCOPE(NAME, C) extern "C" void w_##NAME##_scope(const unsigned char *key, unsigned long kl, const unsigned char *nonce) \
{ { unsigned char buf[32]; ascon::C obj; verif_register(&obj, sizeof(obj)); obj.set_key(key, kl); obj.set_nonce(nonce, 16); \
    obj.encrypt(buf, key, 1, 0, 0);   /* the key and nonce must really be in the object: an opaque C call reads them */ \
    verif_use(buf); } verif_observe(); }
SCOPE(aead128, aead128) SCOPE(aead128a, aead128a) SCOPE(aead80pq, aead80pq)
SCOPE(siv128, siv128) SCOPE(siv128a, siv128a) SCOPE(siv80pq, siv80pq)
SCOPE(isap128a, isap128a) SCOPE(isap128, isap128) SCOPE(isap80pq, isap80pq)
SCOPE(masked128, aead128_masked) SCOPE(masked128a, aead128a_masked) SCOPE(masked80pq, aead80pq_masked)

