/* C17: extern "C" scripts over the C++ hash / XOF wrapper classes (src/ascon/hash.h, src/ascon/xof.h).  Every documented
 * member (except the std::string overloads, which the compile-when-used side check covers) is used once per script; the C
 * API underneath is a set of recording stubs in harness/C17/hx.c, which compares the recorded calls with what the
 * documentation of each member says it does. */
#include <ascon/hash.h>
#include <ascon/xof.h>
#include <ascon/utility.h>

template<class X> static void xof_script(const unsigned char *data, unsigned long len, const char *str, const char *fname,
                                         const unsigned char *custom, unsigned long customlen, unsigned char *out, unsigned long n)
{
    X a;
    a.absorb(data, len);
    a.squeeze(out, n);
    a.reset();
    a.absorb(str);
    a.absorb((const char *)0);
    a.pad();
    {
        ascon::byte_array v = a.squeeze((size_t)n);
        for (unsigned long k = 0; k < n && k < v.size(); ++k) out[n + k] = v[k];
    }
    X b(a);
    b.absorb(ascon::byte_array(data, data + len));
    X c;
    c = b;
    c = c;
    c.squeeze(out + 2 * n, n);
    X d(fname, custom, customlen);
    d.squeeze(out + 3 * n, n);
    X e(fname, ascon::byte_array(custom, custom + customlen));
    e.squeeze(out + 4 * n, n);
    X f(fname);
    (void)a.state();
}

template<class X> static void hash_script(const unsigned char *data, unsigned long len, const char *str, unsigned char *out)
{
    X a;
    a.update(data, len);
    a.finalize(out);
    a.reset();
    a.update(str);
    a.update((const char *)0);
    a.update(ascon::byte_array(data, data + len));
    {
        ascon::byte_array v = a.finalize();
        for (unsigned long k = 0; k < 32 && k < v.size(); ++k) out[32 + k] = v[k];
    }
    X b(a);
    X c;
    c = b;
    c = c;
    c.finalize(out + 64);
    X::digest(out + 96, data, len);
    (void)a.state();
}

#define XS(name, cls) extern "C" void name(const unsigned char *data, unsigned long len, const char *str, const char *fname, \
    const unsigned char *custom, unsigned long customlen, unsigned char *out, unsigned long n) \
    { xof_script< cls >(data, len, str, fname, custom, customlen, out, n); }
XS(hx_xof_0, ascon::xof)
XS(hx_xof_16, ascon::xof_with_output_length<16>)
XS(hx_xof_32, ascon::xof_with_output_length<32>)
XS(hx_xof_48, ascon::xof_with_output_length<48>)
XS(hx_xofa_0, ascon::xofa)
XS(hx_xofa_16, ascon::xofa_with_output_length<16>)
XS(hx_xofa_32, ascon::xofa_with_output_length<32>)
XS(hx_xofa_48, ascon::xofa_with_output_length<48>)
extern "C" void hx_hash(const unsigned char *data, unsigned long len, const char *str, unsigned char *out) { hash_script<ascon::hash>(data, len, str, out); }
extern "C" void hx_hasha(const unsigned char *data, unsigned long len, const char *str, unsigned char *out) { hash_script<ascon::hasha>(data, len, str, out); }
