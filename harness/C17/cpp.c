/* C17 / C14: the C++ cipher classes (clang IR of src/cplusplus/ *.cpp + harness/C17/wrappers.cpp,
 * translated by enc/llvm) against direct C API calls, for every keying path.
 * CLS 0..2 aead128/128a/80pq   3..5 siv   6..8 isap128a/128/80pq   9..11 masked128/128a/80pq
 * KEYING 0 default ctor (zero key) 1 key ctor 2 set_key(full) 3 set_key(p, 0) 4 wrong length after a good key
 *        5 ISAP: saved key (80 bytes) via set_key
 * DEC 0 encrypt / 1 decrypt (symbolic tag).  NLEN = length passed to set_nonce (0..20) or COUNTER=1.
 * A second encrypt on the same object exposes the stored nonce: N+1 after encrypt or successful
 * decrypt, N after a failed decrypt (C14).  Both sides run the real C library with the
 * permutation abstracted (C++ run recorded, C run replayed). */
#include "vh.h"
#include "spec.h"
#include "lockstep.h"
#include <ascon/aead.h>
#include <ascon/siv.h>
#include <ascon/isap.h>
#include <ascon/aead-masked.h>
#ifndef COUNTER
#define COUNTER 0
#endif
#ifndef NLEN
#define NLEN 16
#endif
#define ML 9
#define AL 3

#if CLS % 3 == 2 || (CLS >= 6 && CLS <= 8 && CLS == 8)
#endif
#if CLS == 2 || CLS == 5 || CLS == 8 || CLS == 11
#define KL 20
#else
#define KL 16
#endif

#define PROTO(n) uint32_t ir_w_##n(uint32_t, uint32_t, uint8_t *, uint64_t, uint8_t *, uint64_t, uint8_t *, uint64_t, uint32_t, uint64_t, \
                                  uint8_t *, uint8_t *, uint8_t *, uint64_t, uint8_t *, uint64_t, uint8_t *, uint8_t *, uint8_t *)
PROTO(aead128); PROTO(aead128a); PROTO(aead80pq); PROTO(siv128); PROTO(siv128a); PROTO(siv80pq);
PROTO(isap128a); PROTO(isap128); PROTO(isap80pq); PROTO(masked128); PROTO(masked128a); PROTO(masked80pq);

#if CLS == 0
#define W ir_w_aead128
#define CENC(c, l, m, ml, ad, al, n, k) ascon128_aead_encrypt(c, l, m, ml, ad, al, n, k)
#define CDEC(m, l, c, cl, ad, al, n, k) ascon128_aead_decrypt(m, l, c, cl, ad, al, n, k)
#elif CLS == 1
#define W ir_w_aead128a
#define CENC(c, l, m, ml, ad, al, n, k) ascon128a_aead_encrypt(c, l, m, ml, ad, al, n, k)
#define CDEC(m, l, c, cl, ad, al, n, k) ascon128a_aead_decrypt(m, l, c, cl, ad, al, n, k)
#elif CLS == 2
#define W ir_w_aead80pq
#define CENC(c, l, m, ml, ad, al, n, k) ascon80pq_aead_encrypt(c, l, m, ml, ad, al, n, k)
#define CDEC(m, l, c, cl, ad, al, n, k) ascon80pq_aead_decrypt(m, l, c, cl, ad, al, n, k)
#elif CLS == 3
#define W ir_w_siv128
#define CENC(c, l, m, ml, ad, al, n, k) ascon128_siv_encrypt(c, l, m, ml, ad, al, n, k)
#define CDEC(m, l, c, cl, ad, al, n, k) ascon128_siv_decrypt(m, l, c, cl, ad, al, n, k)
#elif CLS == 4
#define W ir_w_siv128a
#define CENC(c, l, m, ml, ad, al, n, k) ascon128a_siv_encrypt(c, l, m, ml, ad, al, n, k)
#define CDEC(m, l, c, cl, ad, al, n, k) ascon128a_siv_decrypt(m, l, c, cl, ad, al, n, k)
#elif CLS == 5
#define W ir_w_siv80pq
#define CENC(c, l, m, ml, ad, al, n, k) ascon80pq_siv_encrypt(c, l, m, ml, ad, al, n, k)
#define CDEC(m, l, c, cl, ad, al, n, k) ascon80pq_siv_decrypt(m, l, c, cl, ad, al, n, k)
#elif CLS == 6
#define W ir_w_isap128a
#define ISAP(x) ascon128a_isap_aead_##x
#define ISAPKEY ascon128a_isap_aead_key_t
#elif CLS == 7
#define W ir_w_isap128
#define ISAP(x) ascon128_isap_aead_##x
#define ISAPKEY ascon128_isap_aead_key_t
#elif CLS == 8
#define W ir_w_isap80pq
#define ISAP(x) ascon80pq_isap_aead_##x
#define ISAPKEY ascon80pq_isap_aead_key_t
#elif CLS == 9
#define W ir_w_masked128
#define MASKED(x) ascon128_masked_aead_##x
#define MKEY ascon_masked_key_128_t
#define MKINIT ascon_masked_key_128_init
#elif CLS == 10
#define W ir_w_masked128a
#define MASKED(x) ascon128a_masked_aead_##x
#define MKEY ascon_masked_key_128_t
#define MKINIT ascon_masked_key_128_init
#else
#define W ir_w_masked80pq
#define MASKED(x) ascon80pq_masked_aead_##x
#define MKEY ascon_masked_key_160_t
#define MKINIT ascon_masked_key_160_init
#endif

static void add1(unsigned char n[16])
{
    unsigned i, carry = 1;
    for (i = 16; i > 0; --i) { carry += n[i - 1]; n[i - 1] = (unsigned char)carry; carry >>= 8; }
}

void harness(void)
{
    SYM_BYTES(key, KL);
    SYM_BYTES(alt, 80);
    SYM_BYTES(nonce, 20);
    SYM_BYTES(in, ML + 16);
    SYM_BYTES(ad, AL);
    uint64_t counter = nondet_u64();
    unsigned char o1[ML + 16], o2[ML + 16], e1[ML + 16], e2[ML + 16], effkey[KL], effn[16];
    int skr = -2, r2 = -2, r1, er1, er2, ok;
    unsigned long sizes[3];
    size_t l1 = 0, l2 = 0, inlen = DEC ? ML + 16 : ML, len2 = ML;
    unsigned i;
    unsigned altlen = (KEYING == 4) ? ALTLEN : (KEYING == 5 ? 80 : 0);
    vh_sym_bytes(o1, ML + 16); vh_sym_bytes(o2, ML + 16);
    memcpy(e1, o1, ML + 16); memcpy(e2, o2, ML + 16);

    r1 = (int)W(KEYING, DEC, key, KL, ((KEYING == 3 || KEYING == 6 || KEYING == 7) && ALTNULL) ? (uint8_t *)0 : alt, altlen, nonce, NLEN, COUNTER, counter,
                o1, o2, in, inlen, ad, AL, (uint8_t *)&skr, (uint8_t *)&r2, (uint8_t *)sizes);

    /* ---- what the documentation says the object holds ---- */
    memset(effkey, 0, KL);
    if (KEYING == 1 || KEYING == 2 || KEYING == 4) memcpy(effkey, key, KL);
    if (COUNTER) { memset(effn, 0, 8); for (i = 0; i < 8; ++i) effn[8 + i] = (unsigned char)(counter >> (56 - 8 * i)); }
    else if (NLEN >= 16) memcpy(effn, nonce, 16);
    else { memset(effn, 0, 16); memcpy(effn + 16 - NLEN, nonce, NLEN); }
    CHECK(sizes[0] == KL && sizes[1] == 16 && sizes[2] == 16, "key_size/tag_size/nonce_size");
    if (KEYING == 2 || KEYING == 3 || KEYING == 5 || KEYING == 6 || KEYING == 7) CHECK(skr == 1, "set_key accepts a full-length key, a zero length and (ISAP) a saved key");
    if (KEYING == 4) CHECK(skr == 0, "set_key rejects a wrong length with false");

    /* ---- the same through the C API (replaying the permutation transcript) ---- */
    ls_replay_mode = 1;
    {
#if CLS <= 5
#define ENC2(c, l, m, ml, n) CENC(c, l, m, ml, ad, AL, n, effkey)
#define DEC2(m, l, c, cl, n) CDEC(m, l, c, cl, ad, AL, n, effkey)
#elif CLS <= 8
        ISAPKEY pk;
        if (KEYING == 5) ISAP(load_key)(&pk, alt); else ISAP(init)(&pk, effkey);
#define ENC2(c, l, m, ml, n) ISAP(encrypt)(c, l, m, ml, ad, AL, n, &pk)
#define DEC2(m, l, c, cl, n) ISAP(decrypt)(m, l, c, cl, ad, AL, n, &pk)
#else
        MKEY mk;
        MKINIT(&mk, effkey);
#define ENC2(c, l, m, ml, n) MASKED(encrypt)(c, l, m, ml, ad, AL, n, &mk)
#define DEC2(m, l, c, cl, n) MASKED(decrypt)(m, l, c, cl, ad, AL, n, &mk)
#endif
#if DEC
        er1 = DEC2(e1, &l1, in, ML + 16, effn);
        if (er1 >= 0) { add1(effn); er1 = (int)l1; } else er1 = -1;
#else
        ENC2(e1, &l1, in, ML, effn);
        er1 = (int)l1; add1(effn);
#endif
        ENC2(e2, &l2, in, len2, effn);
        er2 = (int)l2;
    }
    CHECK(r1 == er1, "first result equals the C API result (length, or -1 on failed decryption)");
    CHECK(r2 == er2, "second result equals the C API result");
#if DEC
    ok = (er1 < 0) || vh_eq_bytes(o1, e1, ML);
#else
    ok = vh_eq_bytes(o1, e1, ML + 16);
#endif
    CHECK(ok, "first packet equals the C API output for the documented key and nonce");
    ok = vh_eq_bytes(o2, e2, ML + 16);
    CHECK(ok, "second packet equals the C API output under the nonce the object must now hold (N+1, or N after a failed decryption)");
    WITNESS();
}
