/* Common harness vocabulary.  One source, two compilations:
 *   goto-cc (default)      : nondet_* are unconstrained symbolic values, CHECK is a
 *                            solver obligation, ASSUME a constraint.
 *   gcc -DVERIF_REPLAY     : nondet_* replay the values of a solver counterexample
 *                            (or zeros / KAT bytes), CHECK prints CHECK-FAILED.
 */
#ifndef VERIF_VH_H
#define VERIF_VH_H
#include <stdint.h>
#include <stddef.h>
#include <string.h>

#ifdef VERIF_REPLAY
#include <stdio.h>
#include <stdlib.h>
extern int vh_failed;
uint64_t vh_next(const char *kind);
#define nondet_uchar()  ((unsigned char)vh_next("uchar"))
#define nondet_u16()    ((uint16_t)vh_next("u16"))
#define nondet_u32()    ((uint32_t)vh_next("u32"))
#define nondet_u64()    ((uint64_t)vh_next("u64"))
#define nondet_size()   ((size_t)vh_next("size"))
#define nondet_int()    ((int)vh_next("int"))
void vh_report(const char *kind, const char *msg, const char *file, int line);   /* raw write(2) syscall: harnesses may stub stdio */
#define CHECK(c, msg) do { if (!(c)) { vh_report("CHECK-FAILED", msg, __FILE__, __LINE__); vh_failed = 1; } } while (0)
#define ASSUME(c) do { if (!(c)) { vh_report("ASSUME-FALSE", #c, __FILE__, __LINE__); _Exit(vh_failed ? 101 : 3); } } while (0)
#define WITNESS() do { } while (0)
#define MUSTFAIL(c, msg) do { } while (0)
#else
/* Every symbolic draw is routed through the global `vh_nd`, so that a
 * counterexample trace lists all drawn values in execution order
 * (assignments to a user global are always part of the trace). */
unsigned char nondet_raw_uchar(void);
uint16_t nondet_raw_u16(void);
uint32_t nondet_raw_u32(void);
uint64_t nondet_raw_u64(void);
size_t nondet_raw_size(void);
int nondet_raw_int(void);
extern uint64_t vh_nd;
static inline unsigned char nondet_uchar(void) { unsigned char v = nondet_raw_uchar(); vh_nd = v; return v; }
static inline uint16_t nondet_u16(void) { uint16_t v = nondet_raw_u16(); vh_nd = v; return v; }
static inline uint32_t nondet_u32(void) { uint32_t v = nondet_raw_u32(); vh_nd = v; return v; }
static inline uint64_t nondet_u64(void) { uint64_t v = nondet_raw_u64(); vh_nd = v; return v; }
static inline size_t nondet_size(void) { size_t v = nondet_raw_size(); vh_nd = v; return v; }
static inline int nondet_int(void) { int v = nondet_raw_int(); vh_nd = (uint64_t)(int64_t)v; return v; }
#define CHECK(c, msg) __CPROVER_assert((c), msg)
#define ASSUME(c) __CPROVER_assume(c)
/* existence claim: the solver must be able to violate this assertion */
#define MUSTFAIL(c, msg) __CPROVER_assert((c), "MUSTFAIL " msg)
#ifdef NOWITNESS
#define WITNESS() do { } while (0)
#else
#define WITNESS() __CPROVER_assert(0, "WITNESS")
#endif
#endif

static inline void vh_sym_bytes(unsigned char *p, size_t n)
{
    size_t i;
    for (i = 0; i < n; ++i)
        p[i] = nondet_uchar();
}

/* Arrays of length 0 are not allowed in C; objects are sized n and, when n == 0,
 * the harness passes a pointer one-past a 1-byte object's end is avoided by
 * using NULL where the API allows it.  SYM_BYTES declares an exactly sized
 * object for n > 0. */
#define SYM_BYTES(name, n) unsigned char name[(n) > 0 ? (n) : 1]; vh_sym_bytes(name, (n))

static inline int vh_eq_bytes(const unsigned char *a, const unsigned char *b, size_t n)
{
    size_t i; int ok = 1;
    for (i = 0; i < n; ++i)
        ok &= (a[i] == b[i]);
    return ok;
}

void harness(void);
#endif
