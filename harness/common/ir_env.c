/* libc-level contracts used by code translated from LLVM IR (single-run mode) */
#include "vh.h"
#include <stdlib.h>
void verif_explicit_bzero(uint8_t *p, size_t n) { memset(p, 0, n); }
uint8_t *verif_new(size_t n) { uint8_t *p = malloc(n); ASSUME(p != 0); return p; }
void verif_delete(uint8_t *p) { free(p); }
void verif_unknown_function(void) { CHECK(0, "call through a pointer to a function outside the translated unit"); }
