#ifndef VERIF_LOCKSTEP_H
#define VERIF_LOCKSTEP_H
#include <ascon/permutation.h>
#include <stdint.h>
void ls_to_canon(const ascon_state_t *s, uint64_t x[5]);
void ls_from_canon(ascon_state_t *s, const uint64_t x[5]);
extern unsigned ls_n_impl, ls_n_spec;
extern int ls_replay_mode;   /* FORM_T only */
void ls_done(void);
void ls_impl_P(uint64_t x[5], unsigned first_round);   /* FORM_T only */
#if defined(FORM_T)
int ls_last_input(uint64_t x[5]);
void ls_done_allow(unsigned allowed_trailing);
#else
#define ls_done_allow(n) ls_done()
#endif
#endif
