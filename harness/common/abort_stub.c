/* C09: in the acquire/release checker build `abort()` is compiled as verif_abort(): reaching it is a violation */
#include "vh.h"
void verif_abort(void)
{
    CHECK(0, "the library's acquire/release balance checker aborted");
    ASSUME(0);
}
