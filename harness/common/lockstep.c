/* Glue between the library's permutation interface and the reference models.
 *
 * FORM_I : integrated.  The library uses its real back end (linked in from
 *          /repo), the models use spec_permute.
 * FORM_T : transcript / lock-step (DESIGN 2.3).  The library's ascon_permute is
 *          this stub: call k records (start round, canonical input) and returns
 *          a fresh unconstrained state y_k.  The model's k-th permutation call
 *          must have the same start round and input (asserted, then assumed)
 *          and continues with y_k.  If every assertion holds, the mode code and
 *          the model compute the same function for EVERY permutation function.
 *
 * Layout model (canonical words <-> ascon_state_t), per back end:
 *   SLICED64   : S[i] is word i (host order)
 *   SLICED32   : W[2i] holds the even bits, W[2i+1] the odd bits of word i
 *   DIRECT_XOR : B[] is the big-endian byte string (also "generic")
 */
#include "vh.h"
#include "spec.h"
#include <ascon/permutation.h>
#include "core/ascon-select-backend.h"
#include "lockstep.h"

void ls_to_canon(const ascon_state_t *s, uint64_t x[5])
{
    unsigned i, j;
#if defined(ASCON_BACKEND_SLICED64)
    for (i = 0; i < 5; ++i) x[i] = s->S[i];
    (void)j;
#elif defined(ASCON_BACKEND_SLICED32)
    for (i = 0; i < 5; ++i) {
        uint64_t v = 0;
        for (j = 0; j < 32; ++j) {
            v |= ((uint64_t)((s->W[2 * i] >> j) & 1U)) << (2 * j);
            v |= ((uint64_t)((s->W[2 * i + 1] >> j) & 1U)) << (2 * j + 1);
        }
        x[i] = v;
    }
#else
    for (i = 0; i < 5; ++i) {
        uint64_t v = 0;
        for (j = 0; j < 8; ++j) v = (v << 8) | s->B[8 * i + j];
        x[i] = v;
    }
#endif
}

void ls_from_canon(ascon_state_t *s, const uint64_t x[5])
{
    unsigned i, j;
#if defined(ASCON_BACKEND_SLICED64)
    for (i = 0; i < 5; ++i) s->S[i] = x[i];
    (void)j;
#elif defined(ASCON_BACKEND_SLICED32)
    for (i = 0; i < 5; ++i) {
        uint32_t e = 0, o = 0;
        for (j = 0; j < 32; ++j) {
            e |= ((uint32_t)((x[i] >> (2 * j)) & 1U)) << j;
            o |= ((uint32_t)((x[i] >> (2 * j + 1)) & 1U)) << j;
        }
        s->W[2 * i] = e;
        s->W[2 * i + 1] = o;
    }
#else
    for (i = 0; i < 5; ++i)
        for (j = 0; j < 8; ++j) s->B[8 * i + j] = (uint8_t)(x[i] >> (56 - 8 * j));
#endif
}

#if defined(FORM_I)

void spec_P(uint64_t x[5], unsigned first_round) { spec_permute(x, first_round); }
unsigned ls_n_impl = 0, ls_n_spec = 0;
void ls_done(void) { }

#else /* FORM_T */

#ifndef LS_MAX
#error "LS_MAX (upper bound on permutation calls) must be defined for FORM_T"
#endif

static uint64_t ls_in[LS_MAX][5];
static uint64_t ls_out[LS_MAX][5];
static unsigned ls_round[LS_MAX];
unsigned ls_n_impl = 0, ls_n_spec = 0;

void ascon_permute(ascon_state_t *state, uint8_t first_round)
{
    unsigned k = ls_n_impl;
    uint64_t y[5];
    CHECK(k < LS_MAX, "lockstep: transcript capacity LS_MAX large enough");
    ASSUME(k < LS_MAX);
    ls_n_impl = k + 1;
    ls_to_canon(state, ls_in[k]);
    ls_round[k] = first_round;
    y[0] = nondet_u64(); y[1] = nondet_u64(); y[2] = nondet_u64();
    y[3] = nondet_u64(); y[4] = nondet_u64();
    ls_out[k][0] = y[0]; ls_out[k][1] = y[1]; ls_out[k][2] = y[2];
    ls_out[k][3] = y[3]; ls_out[k][4] = y[4];
    ls_from_canon(state, y);
}

void spec_P(uint64_t x[5], unsigned first_round)
{
    unsigned k = ls_n_spec;
    int same;
    CHECK(k < ls_n_impl, "lockstep: model makes no permutation call the code did not make");
    ASSUME(k < ls_n_impl);
    ls_n_spec = k + 1;
    CHECK(ls_round[k] == first_round, "lockstep: same number of rounds");
    same = x[0] == ls_in[k][0] && x[1] == ls_in[k][1] && x[2] == ls_in[k][2] &&
           x[3] == ls_in[k][3] && x[4] == ls_in[k][4];
    CHECK(same, "lockstep: same permutation input");
    ASSUME(same && ls_round[k] == first_round);
    x[0] = ls_out[k][0]; x[1] = ls_out[k][1]; x[2] = ls_out[k][2];
    x[3] = ls_out[k][3]; x[4] = ls_out[k][4];
}

/* the model must have consumed every call the code made, except trailing
 * calls whose result the code discards (allowed = number of such calls) */
void ls_done_allow(unsigned allowed_trailing)
{
    CHECK(ls_n_spec + allowed_trailing >= ls_n_impl, "lockstep: code makes no extra permutation calls");
}
void ls_done(void) { ls_done_allow(0); }
#endif
