/* Glue between the library's permutation interface and the reference models.
 *
 * FORM_I : integrated.  The library uses its real back end (linked in from
 *          /repo), the models use spec_permute.
 * FORM_T : transcript / lock-step (DESIGN 2.3).  The library's ascon_permute is
 *          this stub: call k records (start round, canonical input) and returns
 *          a fresh unconstrained state y_k.  The model's k-th permutation call
 *          must have the same start round and input (asserted, then assumed)
 *          and continues with y_k.  If every assertion holds, the mode code and
 *          the model compute the same function for EVERY permutation function.
 *
 * Layout model (canonical words <-> ascon_state_t), per back end:
 *   SLICED64   : S[i] is word i (host order)
 *   SLICED32   : W[2i] holds the even bits, W[2i+1] the odd bits of word i
 *   DIRECT_XOR : B[] is the big-endian byte string (also "generic")
 */
#include "vh.h"
#include "spec.h"
#include <ascon/permutation.h>
#include "core/ascon-select-backend.h"
#include "lockstep.h"

void ls_to_canon(const ascon_state_t *s, uint64_t x[5])
{
    unsigned i, j;
#if defined(ASCON_BACKEND_SLICED64)
    for (i = 0; i < 5; ++i) x[i] = s->S[i];
    (void)j;
#elif defined(ASCON_BACKEND_SLICED32)
    for (i = 0; i < 5; ++i) {
        uint64_t v = 0;
        for (j = 0; j < 32; ++j) {
            v |= ((uint64_t)((s->W[2 * i] >> j) & 1U)) << (2 * j);
            v |= ((uint64_t)((s->W[2 * i + 1] >> j) & 1U)) << (2 * j + 1);
        }
        x[i] = v;
    }
#else
    for (i = 0; i < 5; ++i) {
        uint64_t v = 0;
        for (j = 0; j < 8; ++j) v = (v << 8) | s->B[8 * i + j];
        x[i] = v;
    }
#endif
}

void ls_from_canon(ascon_state_t *s, const uint64_t x[5])
{
    unsigned i, j;
#if defined(ASCON_BACKEND_SLICED64)
    for (i = 0; i < 5; ++i) s->S[i] = x[i];
    (void)j;
#elif defined(ASCON_BACKEND_SLICED32)
    for (i = 0; i < 5; ++i) {
        uint32_t e = 0, o = 0;
        for (j = 0; j < 32; ++j) {
            e |= ((uint32_t)((x[i] >> (2 * j)) & 1U)) << j;
            o |= ((uint32_t)((x[i] >> (2 * j + 1)) & 1U)) << j;
        }
        s->W[2 * i] = e;
        s->W[2 * i + 1] = o;
    }
#else
    for (i = 0; i < 5; ++i)
        for (j = 0; j < 8; ++j) s->B[8 * i + j] = (uint8_t)(x[i] >> (56 - 8 * j));
#endif
}

#if defined(FORM_I)

void spec_P(uint64_t x[5], unsigned first_round) { spec_permute(x, first_round); }
unsigned ls_n_impl = 0, ls_n_spec = 0;
void ls_done(void) { }

#else /* FORM_T */

#ifndef LS_MAX
#error "LS_MAX (upper bound on permutation calls) must be defined for FORM_T"
#endif

/* One small static object per recorded call, selected by a switch on the
 * (always concrete) call index: CBMC keeps small objects field-sensitive and
 * resolves the pointer exactly.  One big transcript array is re-encoded on
 * every update instead (ISAP: 6 GB), and an array of pointers to heap records
 * loses precision in the value-set analysis (no verdict in 20 min).
 * ls_records.h is generated per LS_MAX by lib/vlib.py:
 *     static ls_rec_t ls_r0, ls_r1, ...;  static ls_rec_t *ls_get(unsigned k) { switch (k) {...} } */
typedef struct { uint64_t in[5]; uint64_t out[5]; unsigned round; } ls_rec_t;
#include "ls_records.h"
unsigned ls_n_impl = 0, ls_n_spec = 0;
static uint64_t ls_y[5];   /* static scratch: one object, not one per call */

/* ls_replay_mode != 0: the library-side call is the *replaying* side (used when
 * two runs of the implementation are compared with each other, C07) */
int ls_replay_mode = 0;

/* implementation-side permutation on canonical words: record + fresh output,
 * or replay when ls_replay_mode is set */
void ls_impl_P(uint64_t x[5], unsigned first_round)
{
    unsigned k = ls_n_impl;
    ls_rec_t *r;
    if (ls_replay_mode) {
        spec_P(x, first_round);
        return;
    }
    CHECK(k < LS_MAX, "lockstep: transcript capacity LS_MAX large enough");
    ASSUME(k < LS_MAX);
    ls_n_impl = k + 1;
    r = ls_get(k);
    r->in[0] = x[0]; r->in[1] = x[1]; r->in[2] = x[2]; r->in[3] = x[3]; r->in[4] = x[4];
    r->round = first_round;
    x[0] = nondet_u64(); x[1] = nondet_u64(); x[2] = nondet_u64();
    x[3] = nondet_u64(); x[4] = nondet_u64();
    r->out[0] = x[0]; r->out[1] = x[1]; r->out[2] = x[2];
    r->out[3] = x[3]; r->out[4] = x[4];
}

#ifndef LS_NO_PLAIN_STUB
void ascon_permute(ascon_state_t *state, uint8_t first_round)
{
    ls_to_canon(state, ls_y);
    ls_impl_P(ls_y, first_round);
    ls_from_canon(state, ls_y);
}
#endif

void spec_P(uint64_t x[5], unsigned first_round)
{
    unsigned k = ls_n_spec;
    int same;
    ls_rec_t *r;
    CHECK(k < ls_n_impl, "lockstep: model makes no permutation call the code did not make");
    ASSUME(k < ls_n_impl);
    ls_n_spec = k + 1;
    r = ls_get(k);
    CHECK(r->round == first_round, "lockstep: same number of rounds");
    same = x[0] == r->in[0] && x[1] == r->in[1] && x[2] == r->in[2] &&
           x[3] == r->in[3] && x[4] == r->in[4];
    CHECK(same, "lockstep: same permutation input");
    ASSUME(same && r->round == first_round);
    x[0] = r->out[0]; x[1] = r->out[1]; x[2] = r->out[2];
    x[3] = r->out[3]; x[4] = r->out[4];
}

/* canonical input of the most recent implementation-side permutation call */
int ls_last_input(uint64_t x[5])
{
    ls_rec_t *r;
    if (ls_n_impl == 0) return 0;
    r = ls_get(ls_n_impl - 1);
    x[0] = r->in[0]; x[1] = r->in[1]; x[2] = r->in[2]; x[3] = r->in[3]; x[4] = r->in[4];
    return 1;
}

/* the model must have consumed every call the code made, except trailing
 * calls whose result the code discards (allowed = number of such calls) */
void ls_done_allow(unsigned allowed_trailing)
{
    CHECK(ls_n_spec + allowed_trailing >= ls_n_impl, "lockstep: code makes no extra permutation calls");
}
void ls_done(void) { ls_done_allow(0); }
#endif
