/* Contract stubs for libc functions CBMC has no body for.  Each is part of the
 * trusted base and is listed in the evidence files. */
#include <stddef.h>
#include <string.h>
#ifndef VERIF_REPLAY
#include <stdint.h>
uint64_t vh_nd;
void explicit_bzero(void *s, size_t n)
{
    /* contract: bytes s[0..n) become zero and the call may not be elided */
    memset(s, 0, n);
}
#endif
