/* Environment stub: the random source.  Every draw is an unconstrained symbolic
 * value ("every random tape"); the number of draws is counted. */
#include "vh.h"
#include "random/ascon-trng.h"
unsigned trng_draws = 0;
#define TRNG_TAPE_MAX 256
uint64_t trng_tape[TRNG_TAPE_MAX];     /* the values drawn, for obligations that talk about the tape */
static uint64_t trng_note(uint64_t v) { if (trng_draws < TRNG_TAPE_MAX) trng_tape[trng_draws] = v; ++trng_draws; return v; }
int trng_init_result_set = 0, trng_init_result = 1;
uint64_t ascon_trng_generate_64(ascon_trng_state_t *state) { (void)state; return trng_note(nondet_u64()); }
uint32_t ascon_trng_generate_32(ascon_trng_state_t *state) { (void)state; return (uint32_t)trng_note(nondet_u32()); }
int ascon_trng_init(ascon_trng_state_t *state) { (void)state; return trng_init_result_set ? trng_init_result : (nondet_int() != 0); }
void ascon_trng_free(ascon_trng_state_t *state) { (void)state; }
int ascon_trng_reseed(ascon_trng_state_t *state) { (void)state; return nondet_int() != 0; }
