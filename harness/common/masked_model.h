/* Share layout model of the masked word back ends (written from the header text
 * of src/masking/ascon-masked-word.h: share k of a word is stored rotated right
 * by 11*k bits (64-bit back ends) or, per 32-bit half, by 5*k bits (32-bit
 * sliced back end: W[2k] holds the even bits, W[2k+1] the odd bits). */
#ifndef VERIF_MASKED_MODEL_H
#define VERIF_MASKED_MODEL_H
#include "masking/ascon-masked-backend.h"
#include "masking/ascon-masked-word.h"
#include "masking/ascon-masked-state.h"

static inline uint64_t mm_rol64(uint64_t v, unsigned n) { n &= 63; return n ? (v << n) | (v >> (64 - n)) : v; }
static inline uint32_t mm_rol32(uint32_t v, unsigned n) { n &= 31; return n ? (v << n) | (v >> (32 - n)) : v; }

static inline uint64_t mm_unmask(const ascon_masked_word_t *w, unsigned n)
{
    unsigned k;
#if defined(ASCON_MASKED_WORD_BACKEND_C32)
    uint32_t e = w->W[0], o = w->W[1];
    uint64_t v = 0;
    unsigned j;
    for (k = 1; k < n; ++k) { e ^= mm_rol32(w->W[2 * k], 5 * k); o ^= mm_rol32(w->W[2 * k + 1], 5 * k); }
    for (j = 0; j < 32; ++j) {
        v |= ((uint64_t)((e >> j) & 1U)) << (2 * j);
        v |= ((uint64_t)((o >> j) & 1U)) << (2 * j + 1);
    }
    return v;
#elif defined(ASCON_MASKED_WORD_BACKEND_DIRECT_XOR)
    uint64_t v = 0; unsigned j;
    for (j = 0; j < 8; ++j) { uint8_t b = 0; for (k = 0; k < n; ++k) b ^= w->B[8 * k + j]; v = (v << 8) | b; }
    return v;
#else
    uint64_t v = w->S[0];
    for (k = 1; k < n; ++k) v ^= mm_rol64(w->S[k], 11 * k);
    return v;
#endif
}

/* set word to value v under an arbitrary n-sharing; shares n.. are left alone */
static inline void mm_share(ascon_masked_word_t *w, unsigned n, uint64_t v)
{
    unsigned k;
#if defined(ASCON_MASKED_WORD_BACKEND_C32)
    uint32_t e = 0, o = 0; unsigned j;
    for (j = 0; j < 32; ++j) { e |= ((uint32_t)((v >> (2 * j)) & 1U)) << j; o |= ((uint32_t)((v >> (2 * j + 1)) & 1U)) << j; }
    for (k = 1; k < n; ++k) {
        w->W[2 * k] = nondet_u32(); w->W[2 * k + 1] = nondet_u32();
        e ^= mm_rol32(w->W[2 * k], 5 * k); o ^= mm_rol32(w->W[2 * k + 1], 5 * k);
    }
    w->W[0] = e; w->W[1] = o;
#elif defined(ASCON_MASKED_WORD_BACKEND_DIRECT_XOR)
    unsigned j;
    for (j = 0; j < 8; ++j) { uint8_t b = (uint8_t)(v >> (56 - 8 * j)); for (k = 1; k < n; ++k) { w->B[8 * k + j] = nondet_uchar(); b ^= w->B[8 * k + j]; } w->B[j] = b; }
#else
    for (k = 1; k < n; ++k) { w->S[k] = nondet_u64(); v ^= mm_rol64(w->S[k], 11 * k); }
    w->S[0] = v;
#endif
}

static inline void mm_arbitrary(ascon_masked_word_t *w)
{
    unsigned k;
    for (k = 0; k < ASCON_MASKED_MAX_SHARES; ++k) w->S[k] = nondet_u64();
}

/* are the shares >= n all zero? */
static inline int mm_upper_zero(const ascon_masked_word_t *w, unsigned n)
{
    unsigned k; int z = 1;
    for (k = n; k < ASCON_MASKED_MAX_SHARES; ++k) z &= (w->S[k] == 0);
    return z;
}
#endif
