/* Native replay driver: feeds the nondet values of a counterexample back in order. */
#define VERIF_REPLAY 1
#include "vh.h"
#include "replay_values.h"   /* generated: vh_vals[], vh_kinds[], vh_nvals */
int vh_failed = 0;
static size_t vh_pos = 0;
uint64_t vh_next(const char *kind)
{
    (void)kind;
    if (vh_pos >= vh_nvals)
        return 0;
    return vh_vals[vh_pos++];
}
int main(void)
{
    harness();
    if (vh_failed) { printf("REPLAY-RESULT reproduced\n"); return 1; }
    printf("REPLAY-RESULT clean (consumed %zu of %zu values)\n", vh_pos, (size_t)vh_nvals);
    return 0;
}
