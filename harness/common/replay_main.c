/* Native replay driver: feeds the nondet values of a counterexample back in order. */
#define VERIF_REPLAY 1
#include "vh.h"
#include "replay_values.h"   /* generated: vh_vals[], vh_kinds[], vh_nvals */
int vh_failed = 0;
static size_t vh_pos = 0;
uint64_t vh_next(const char *kind)
{
    (void)kind;
    if (vh_pos >= vh_nvals)
        return 0;
    return vh_vals[vh_pos++];
}
#include <unistd.h>
#include <sys/syscall.h>
static void raw(const char *s) { size_t n = 0; while (s[n]) ++n; syscall(SYS_write, 1, s, n); }
void vh_report(const char *kind, const char *msg, const char *file, int line)
{
    char num[16]; int i = 14; num[15] = 0;
    if (line == 0) num[i--] = '0';
    while (line > 0 && i >= 0) { num[i--] = (char)('0' + line % 10); line /= 10; }
    raw(kind); raw(" "); raw(msg); raw(" ("); raw(file); raw(":"); raw(num + i + 1); raw(")\n");
}
int main(void)
{
    harness();
    if (vh_failed) { raw("REPLAY-RESULT reproduced\n"); _Exit(101); }
    raw("REPLAY-RESULT clean\n");
    _Exit(0);
}
