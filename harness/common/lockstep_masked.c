/* Transcript-form stubs for the masked permutations (DESIGN 2.3): un-mask the
 * input through the share layout model, go through the same transcript as the
 * plain permutation, return the output under an ARBITRARY re-sharing (all shares
 * but one unconstrained) and havoc `preserve`.  This over-approximates the real
 * masked permutations given the per-round theorem of C10. */
#include "vh.h"
#include "lockstep.h"
#include "masked_model.h"
#if defined(FORM_T)
static uint64_t lm_x[5];
static void lm_permute(ascon_masked_state_t *state, uint8_t first_round, uint64_t *preserve, unsigned n)
{
    unsigned i;
    for (i = 0; i < 5; ++i) lm_x[i] = mm_unmask(&state->M[i], n);
    ls_impl_P(lm_x, first_round);
    for (i = 0; i < 5; ++i) mm_share(&state->M[i], n, lm_x[i]);
    for (i = 0; i + 1 < n; ++i) preserve[i] = nondet_u64();
}
void ascon_x2_permute(ascon_masked_state_t *state, uint8_t first_round, uint64_t *preserve) { lm_permute(state, first_round, preserve, 2); }
#if ASCON_MASKED_MAX_SHARES >= 3
void ascon_x3_permute(ascon_masked_state_t *state, uint8_t first_round, uint64_t *preserve) { lm_permute(state, first_round, preserve, 3); }
#endif
#if ASCON_MASKED_MAX_SHARES >= 4
void ascon_x4_permute(ascon_masked_state_t *state, uint8_t first_round, uint64_t *preserve) { lm_permute(state, first_round, preserve, 4); }
#endif
#endif
