/* C16 (M3): operations never store into objects they take as constant inputs
 * (keys, nonces, AD, messages, pre-computed ISAP keys, masked keys), so such
 * objects can be shared read-only between threads.  Every input object is compared
 * with its pre-call value after each call; inputs and outputs are distinct, exactly
 * sized objects (a store outside any object is a CBMC pointer-check failure).
 * FAM 0 aead128 1 aead128a 2 aead80pq 3 siv128 4 isap128a 5 masked128 6 hash/xof 7 prf/mac 8 hmac 9 kmac 10 hkdf 11 pbkdf2 12 kdf */
#include "vh.h"
#include "spec.h"
#include "lockstep.h"
#include <ascon/aead.h>
#include <ascon/siv.h>
#include <ascon/isap.h>
#include <ascon/aead-masked.h>
#include <ascon/hash.h>
#include <ascon/xof.h>
#include <ascon/prf.h>
#include <ascon/hmac.h>
#include <ascon/kmac.h>
#include <ascon/hkdf.h>
#include <ascon/pbkdf2.h>
#include <ascon/kdf.h>
#define AL 9
#define ML 17

#define SNAP(x) unsigned char x##_0[sizeof(x)]; memcpy(x##_0, x, sizeof(x))
#define SAME(x) vh_eq_bytes((const unsigned char *)(x), x##_0, sizeof(x))

void harness(void)
{
    SYM_BYTES(key, 20); SYM_BYTES(npub, 16); SYM_BYTES(ad, AL); SYM_BYTES(m, ML);
    unsigned char c[ML + 16], p[ML], out[40];
    size_t l1 = 0, l2 = 0; int ok = 1;
    SNAP(key); SNAP(npub); SNAP(ad); SNAP(m);
#if FAM == 0
    ascon128_aead_encrypt(c, &l1, m, ML, ad, AL, npub, key); { SNAP(c); ascon128_aead_decrypt(p, &l2, c, ML + 16, ad, AL, npub, key); ok &= SAME(c); }
#elif FAM == 1
    ascon128a_aead_encrypt(c, &l1, m, ML, ad, AL, npub, key); { SNAP(c); ascon128a_aead_decrypt(p, &l2, c, ML + 16, ad, AL, npub, key); ok &= SAME(c); }
#elif FAM == 2
    ascon80pq_aead_encrypt(c, &l1, m, ML, ad, AL, npub, key); { SNAP(c); ascon80pq_aead_decrypt(p, &l2, c, ML + 16, ad, AL, npub, key); ok &= SAME(c); }
#elif FAM == 3
    ascon128_siv_encrypt(c, &l1, m, ML, ad, AL, npub, key); { SNAP(c); ascon128_siv_decrypt(p, &l2, c, ML + 16, ad, AL, npub, key); ok &= SAME(c); }
#elif FAM == 4
    {
        ascon128a_isap_aead_key_t pk; uint64_t ke[5], ka[5], t[5]; unsigned i; int same = 1;
        for (i = 0; i < 5; ++i) { ke[i] = nondet_u64(); ka[i] = nondet_u64(); }
        ls_from_canon(&pk.ke, ke); ls_from_canon(&pk.ka, ka);
        ascon128a_isap_aead_encrypt(c, &l1, m, 1, ad, 1, npub, &pk);
        { SNAP(c); ascon128a_isap_aead_decrypt(p, &l2, c, 17, ad, 1, npub, &pk); ok &= SAME(c); }
        ls_to_canon(&pk.ke, t); for (i = 0; i < 5; ++i) same &= (t[i] == ke[i]);
        ls_to_canon(&pk.ka, t); for (i = 0; i < 5; ++i) same &= (t[i] == ka[i]);
        CHECK(same, "shared pre-computed ISAP key is never stored to");
    }
#elif FAM == 5
    {
#ifndef MALG
#define MALG 0
#endif
#if MALG == 2
        ascon_masked_key_160_t mk; unsigned i, k;
        for (i = 0; i < 6; ++i) for (k = 0; k < 4; ++k) mk.k[i].S[k] = nondet_u64();
#define M_ENC ascon80pq_masked_aead_encrypt
#define M_DEC ascon80pq_masked_aead_decrypt
#else
        ascon_masked_key_128_t mk; unsigned i, k;
        for (i = 0; i < 2; ++i) for (k = 0; k < 4; ++k) mk.k[i].S[k] = nondet_u64();
#if MALG == 1
#define M_ENC ascon128a_masked_aead_encrypt
#define M_DEC ascon128a_masked_aead_decrypt
#else
#define M_ENC ascon128_masked_aead_encrypt
#define M_DEC ascon128_masked_aead_decrypt
#endif
#endif
        { unsigned char mk_0[sizeof(mk)]; memcpy(mk_0, &mk, sizeof(mk));
          M_ENC(c, &l1, m, ML, ad, AL, npub, (const void *)&mk);
          { SNAP(c); M_DEC(p, &l2, c, ML + 16, ad, AL, npub, (const void *)&mk); ok &= SAME(c); }
          CHECK(vh_eq_bytes((const unsigned char *)&mk, mk_0, sizeof(mk)), "shared masked key is never stored to"); }
    }
#elif FAM == 6
    ascon_hash(out, m, ML); ascon_hasha(out, m, ML); ascon_xof(out, m, ML); ascon_xofa(out, m, ML);
#elif FAM == 7
    ascon_prf(out, 17, m, ML, key); ascon_mac(out, m, ML, key); { SNAP(out); ascon_mac_verify(out, m, ML, key); ok &= SAME(out); } ascon_prf_short(out, 9, m, 7, key);
#elif FAM == 8
    ascon_hmac(out, key, 20, m, ML); ascon_hmaca(out, key, 20, m, ML);
#elif FAM == 9
    ascon_kmac(key, 20, m, ML, ad, AL, out, 32); ascon_kmaca(key, 20, m, ML, ad, AL, out, 17);
#elif FAM == 10
    ascon_hkdf(out, 33, key, 20, npub, 16, ad, AL);
#elif FAM == 11
    ascon_pbkdf2(out, 33, key, 20, npub, 16, 2);
#elif FAM == 12
    ascon_kdf(out, 33, key, 20, ad, AL); ascon_kdfa(out, 9, key, 20, ad, AL);
#endif
    ok &= SAME(key) && SAME(npub) && SAME(ad) && SAME(m);
    CHECK(ok, "constant input objects hold their pre-call bytes after every call");
    (void)l1; (void)l2; (void)c; (void)p; (void)out;
    WITNESS();
}
