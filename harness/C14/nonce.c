/* C14: nonces.
 * KIND 0 ascon_aead_increment_nonce: all 2^128 inputs, result == input + 1 mod 2^128 (big-endian)
 *      1 ascon_aead_set_counter: all 2^64 counters: eight zero bytes then the counter big-endian
 *      2 session of two packets on one incremental object (ALG): packet 0 == one-shot under N,
 *        packet 1 == one-shot under N+1, stored nonce == N+2 afterwards (transcript form)
 *      3 mixed session of three packets on one incremental object: encrypt, decrypt of an ARBITRARY
 *        (ciphertext, tag) pair - so both the accepted and the rejected case are in the query -,
 *        encrypt.  Packet 1 == spec decryption under N+1 with result 0 iff the tags agree, packet 2 ==
 *        one-shot under N+2 whatever the outcome of packet 1, stored nonce == N+3 (transcript form)
 */
#include "vh.h"
#include "spec.h"
#include "lockstep.h"
#include <ascon/aead.h>
#ifndef ALG
#define ALG 0
#endif
#if ALG == 0
#define KLEN 16
#define FN(x) ascon128_aead_##x
#define ST ascon128_state_t
#elif ALG == 1
#define KLEN 16
#define FN(x) ascon128a_aead_##x
#define ST ascon128a_state_t
#else
#define KLEN 20
#define FN(x) ascon80pq_aead_##x
#define ST ascon80pq_state_t
#endif

static void add128(unsigned char out[16], const unsigned char in[16], unsigned inc)
{
    /* two 64-bit limbs with carry: the arithmetic definition of N + inc mod 2^128 */
    uint64_t hi = 0, lo = 0, nlo; unsigned i;
    for (i = 0; i < 8; ++i) { hi = (hi << 8) | in[i]; lo = (lo << 8) | in[8 + i]; }
    nlo = lo + inc;
    if (nlo < lo) hi += 1;
    for (i = 0; i < 8; ++i) { out[i] = (unsigned char)(hi >> (56 - 8 * i)); out[8 + i] = (unsigned char)(nlo >> (56 - 8 * i)); }
}

void harness(void)
{
    int ok;
#if KIND == 0
    SYM_BYTES(n, 16);
    unsigned char e[16];
    add128(e, n, 1);
    ascon_aead_increment_nonce(n);
    ok = vh_eq_bytes(n, e, 16);
    CHECK(ok, "increment_nonce adds one as a 128-bit big-endian integer with full carry");
#elif KIND == 1
    SYM_BYTES(n, 16);
    uint64_t c = nondet_u64(); unsigned i;
    ascon_aead_set_counter(n, c);
    ok = 1;
    for (i = 0; i < 8; ++i) ok &= (n[i] == 0) && (n[8 + i] == (unsigned char)(c >> (56 - 8 * i)));
    CHECK(ok, "set_counter stores the counter big-endian in the low 8 bytes, high 8 bytes zero");
#elif KIND == 2
    SYM_BYTES(key, KLEN);
    SYM_BYTES(npub, 16);
    SYM_BYTES(ad, ADLEN);
    SYM_BYTES(m1, MLEN);
    SYM_BYTES(m2, MLEN);
    unsigned char c1[MLEN > 0 ? MLEN : 1], c2[MLEN > 0 ? MLEN : 1], t1[16], t2[16], e[MLEN > 0 ? MLEN : 1], et[16], n1[16], n2[16];
    ST st;
    FN(init)(&st, npub, key);
    FN(start)(&st, ad, ADLEN); FN(encrypt_block)(&st, m1, c1, MLEN); FN(encrypt_finalize)(&st, t1);
    FN(start)(&st, ad, ADLEN); FN(encrypt_block)(&st, m2, c2, MLEN); FN(encrypt_finalize)(&st, t2);
    add128(n1, npub, 1); add128(n2, npub, 2);
    spec_aead_encrypt(ALG, e, et, m1, MLEN, ad, ADLEN, npub, key);
    ok = vh_eq_bytes(c1, e, MLEN) && vh_eq_bytes(t1, et, 16);
    CHECK(ok, "packet 0 equals the one-shot result under nonce N");
    spec_aead_encrypt(ALG, e, et, m2, MLEN, ad, ADLEN, n1, key);
    ok = vh_eq_bytes(c2, e, MLEN) && vh_eq_bytes(t2, et, 16);
    CHECK(ok, "packet 1 equals the one-shot result under nonce N+1");
    ok = vh_eq_bytes(st.nonce, n2, 16);
    CHECK(ok, "stored nonce is N+2 after two packets");
    ls_done();
#elif KIND == 3
    SYM_BYTES(key, KLEN);
    SYM_BYTES(npub, 16);
    SYM_BYTES(ad, ADLEN);
    SYM_BYTES(m1, MLEN);
    SYM_BYTES(cin, MLEN);
    SYM_BYTES(tin, 16);
    SYM_BYTES(m3, MLEN);
    unsigned char c1[MLEN > 0 ? MLEN : 1], c3[MLEN > 0 ? MLEN : 1], m2[MLEN > 0 ? MLEN : 1], t1[16], t3[16], e[MLEN > 0 ? MLEN : 1], et[16], n1[16], n2[16], n3[16];
    int r2, same;
    ST st;
    FN(init)(&st, npub, key);
    FN(start)(&st, ad, ADLEN); FN(encrypt_block)(&st, m1, c1, MLEN); FN(encrypt_finalize)(&st, t1);
    FN(start)(&st, ad, ADLEN); FN(decrypt_block)(&st, cin, m2, MLEN); r2 = FN(decrypt_finalize)(&st, tin);
    FN(start)(&st, ad, ADLEN); FN(encrypt_block)(&st, m3, c3, MLEN); FN(encrypt_finalize)(&st, t3);
    add128(n1, npub, 1); add128(n2, npub, 2); add128(n3, npub, 3);
    spec_aead_encrypt(ALG, e, et, m1, MLEN, ad, ADLEN, npub, key);
    ok = vh_eq_bytes(c1, e, MLEN) && vh_eq_bytes(t1, et, 16);
    CHECK(ok, "packet 0 (encrypt) equals the one-shot result under nonce N");
    spec_aead_decrypt(ALG, e, et, cin, MLEN, ad, ADLEN, n1, key);
    same = vh_eq_bytes(tin, et, 16);
    ok = vh_eq_bytes(m2, e, MLEN);
    CHECK(ok, "packet 1 (decrypt_block) returns the spec plaintext under nonce N+1");
    ok = (r2 == (same ? 0 : -1));
    CHECK(ok, "packet 1 (decrypt_finalize) returns 0 iff the tag is the spec tag under N+1, else -1");
    spec_aead_encrypt(ALG, e, et, m3, MLEN, ad, ADLEN, n2, key);
    ok = vh_eq_bytes(c3, e, MLEN) && vh_eq_bytes(t3, et, 16);
    CHECK(ok, "packet 2 (encrypt) equals the one-shot result under nonce N+2, whether packet 1 was accepted or rejected");
    ok = vh_eq_bytes(st.nonce, n3, 16);
    CHECK(ok, "stored nonce is N+3 after three packets");
    ls_done();
#endif
    WITNESS();
}
