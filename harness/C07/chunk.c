/* C07: incremental interfaces are invariant under chunking, copying and re-init.
 * Both sides are the implementation: run A is recorded, run B replays (transcript form),
 * so equality holds for every permutation function.  The object starts in an ARBITRARY
 * state (symbolic sponge state; `count`/`posn` = COUNT concrete per query, every value in
 * range; mode = MODE0), which covers every history leading to that state.
 *
 * OBJ 0 xof, 1 xofa, 2 prf, 3 hash (update), 4 hasha (update), 5 hmac (update), 6 kmac, 7 kmaca, 8 kdf(squeeze), 9 kdfa
 * OP  0 absorb(a,ALEN); absorb(b,BLEN)  ==  absorb(a||b)
 *     1 squeeze(ALEN); squeeze(BLEN)    ==  squeeze(ALEN+BLEN)
 *     2 copy: d = copy(s); then absorb(a) + squeeze(BLEN) on both give the same bytes and states
 *     3 pad: xof_pad twice == once (idempotent) and absorb after pad starts on a block boundary
 * AEAD block functions (OBJ 10 encrypt_8, 11 encrypt_16, 12 decrypt_8, 13 decrypt_16):
 *     f(f(s,a),b) == f(s,a||b), returned `partial` chained; INPLACE=1: dest == src on side B
 */
#include "vh.h"
#include "spec.h"
#include "lockstep.h"
#include <ascon/xof.h>
#include <ascon/hash.h>
#include <ascon/prf.h>
#include <ascon/hmac.h>
#include <ascon/kmac.h>
#include <ascon/kdf.h>
#include "aead/ascon-aead-common.h"
#ifndef INPLACE
#define INPLACE 0
#endif
#ifndef MODE0
#define MODE0 0
#endif

#if OBJ == 0
typedef ascon_xof_state_t T;
#define XST(o) (&(o))
#define ABSORB(o, p, n) ascon_xof_absorb(&(o), p, n)
#define SQUEEZE(o, p, n) ascon_xof_squeeze(&(o), p, n)
#define COPY(d, s) ascon_xof_copy(&(d), &(s))
#define PAD(o) ascon_xof_pad(&(o))
#elif OBJ == 1
typedef ascon_xofa_state_t T;
#define XST(o) (&(o))
#define ABSORB(o, p, n) ascon_xofa_absorb(&(o), p, n)
#define SQUEEZE(o, p, n) ascon_xofa_squeeze(&(o), p, n)
#define COPY(d, s) ascon_xofa_copy(&(d), &(s))
#define PAD(o) ascon_xofa_pad(&(o))
#elif OBJ == 2
typedef ascon_prf_state_t T;
#define XST(o) (&(o))
#define ABSORB(o, p, n) ascon_prf_absorb(&(o), p, n)
#define SQUEEZE(o, p, n) ascon_prf_squeeze(&(o), p, n)
#elif OBJ == 3
typedef ascon_hash_state_t T;
#define XST(o) (&(o).xof)
#define ABSORB(o, p, n) ascon_hash_update(&(o), p, n)
#define COPY(d, s) ascon_hash_copy(&(d), &(s))
#elif OBJ == 4
typedef ascon_hasha_state_t T;
#define XST(o) (&(o).xof)
#define ABSORB(o, p, n) ascon_hasha_update(&(o), p, n)
#define COPY(d, s) ascon_hasha_copy(&(d), &(s))
#elif OBJ == 5
typedef ascon_hmac_state_t T;
#define XST(o) (&(o).hash.xof)
#define ABSORB(o, p, n) ascon_hmac_update(&(o), p, n)
#elif OBJ == 6
typedef ascon_kmac_state_t T;
#define XST(o) (&(o).xof)
#define ABSORB(o, p, n) ascon_kmac_absorb(&(o), p, n)
#define SQUEEZE(o, p, n) ascon_kmac_squeeze(&(o), p, n)
#elif OBJ == 7
typedef ascon_kmaca_state_t T;
#define XST(o) (&(o).xof)
#define ABSORB(o, p, n) ascon_kmaca_absorb(&(o), p, n)
#define SQUEEZE(o, p, n) ascon_kmaca_squeeze(&(o), p, n)
#elif OBJ == 8
typedef ascon_kdf_state_t T;
#define XST(o) (&(o).state)
#define SQUEEZE(o, p, n) ascon_kdf_squeeze(&(o), p, n)
#elif OBJ == 9
typedef ascon_kdfa_state_t T;
#define XST(o) (&(o).state)
#define SQUEEZE(o, p, n) ascon_kdfa_squeeze(&(o), p, n)
#endif

static int same_state(const ascon_state_t *a, const ascon_state_t *b)
{
    uint64_t x[5], y[5];
    ls_to_canon(a, x); ls_to_canon(b, y);
    return x[0] == y[0] && x[1] == y[1] && x[2] == y[2] && x[3] == y[3] && x[4] == y[4];
}

void harness(void)
{
    SYM_BYTES(a, ALEN);
    SYM_BYTES(b, BLEN);
    unsigned char ab[ALEN + BLEN > 0 ? ALEN + BLEN : 1];
    uint64_t x[5];
    unsigned i; int ok;
    for (i = 0; i < 5; ++i) x[i] = nondet_u64();
    memcpy(ab, a, ALEN); memcpy(ab + ALEN, b, BLEN);
#if OBJ < 10
    {
        T s1, s2;
        ls_from_canon(&XST(s1)->state, x); XST(s1)->count = COUNT; XST(s1)->mode = MODE0;
        ls_from_canon(&XST(s2)->state, x); XST(s2)->count = COUNT; XST(s2)->mode = MODE0;
#if OP == 0
        ABSORB(s1, a, ALEN); ABSORB(s1, b, BLEN);
        ls_replay_mode = 1;
        ABSORB(s2, ab, ALEN + BLEN);
#elif OP == 1
        {
            unsigned char o1[ALEN + BLEN > 0 ? ALEN + BLEN : 1], o2[ALEN + BLEN > 0 ? ALEN + BLEN : 1];
            SQUEEZE(s1, o1, ALEN); SQUEEZE(s1, o1 + ALEN, BLEN);
            ls_replay_mode = 1;
            SQUEEZE(s2, o2, ALEN + BLEN);
            ok = vh_eq_bytes(o1, o2, ALEN + BLEN);
            CHECK(ok, "bytes squeezed in two calls equal bytes squeezed in one call");
        }
#elif OP == 2
        {
            T d;
            unsigned char o1[BLEN > 0 ? BLEN : 1], o2[BLEN > 0 ? BLEN : 1];
            COPY(d, s1);
            CHECK(same_state(&XST(d)->state, &XST(s1)->state) && XST(d)->count == XST(s1)->count && XST(d)->mode == XST(s1)->mode,
                  "copy equals original");
            CHECK(same_state(&XST(s2)->state, &XST(s1)->state) && XST(s1)->count == COUNT && XST(s1)->mode == MODE0,
                  "copy leaves the original unchanged");
            ABSORB(s1, a, ALEN);
#ifdef SQUEEZE
            SQUEEZE(s1, o1, BLEN);
#endif
            ls_replay_mode = 1;
            ABSORB(d, a, ALEN);
#ifdef SQUEEZE
            SQUEEZE(d, o2, BLEN);
            ok = vh_eq_bytes(o1, o2, BLEN);
            CHECK(ok, "copy and original produce the same output");
#else
            (void)o1; (void)o2;
#endif
            s2 = d;
        }
#elif OP == 3
        PAD(s1); ABSORB(s1, a, ALEN);
        ls_replay_mode = 1;
        PAD(s2); PAD(s2); ABSORB(s2, a, ALEN);
        CHECK(ALEN >= 8 || XST(s1)->count == ALEN, "after pad the next input starts a fresh block");
#endif
        CHECK(same_state(&XST(s1)->state, &XST(s2)->state), "same sponge state after either call sequence");
        CHECK(XST(s1)->count == XST(s2)->count && XST(s1)->mode == XST(s2)->mode, "same position and phase after either call sequence");
    }
#else
    {
        ascon_state_t s1, s2;
        unsigned char o1[ALEN + BLEN > 0 ? ALEN + BLEN : 1], o2[ALEN + BLEN > 0 ? ALEN + BLEN : 1];
        unsigned char p1, p2;
        ls_from_canon(&s1, x); ls_from_canon(&s2, x);
#if OBJ == 10
#define F ascon_aead_encrypt_8
#elif OBJ == 11
#define F ascon_aead_encrypt_16
#elif OBJ == 12
#define F ascon_aead_decrypt_8
#else
#define F ascon_aead_decrypt_16
#endif
        p1 = F(&s1, o1, a, ALEN, ROUND, COUNT);
        p1 = F(&s1, o1 + ALEN, b, BLEN, ROUND, p1);
        ls_replay_mode = 1;
#if INPLACE
        memcpy(o2, ab, ALEN + BLEN);
        p2 = F(&s2, o2, o2, ALEN + BLEN, ROUND, COUNT);
#else
        p2 = F(&s2, o2, ab, ALEN + BLEN, ROUND, COUNT);
#endif
        ok = vh_eq_bytes(o1, o2, ALEN + BLEN);
        CHECK(ok, "bytes produced in two calls equal bytes produced in one call (also in place)");
        CHECK(p1 == p2, "same block position returned");
        CHECK(same_state(&s1, &s2), "same sponge state after either call sequence");
    }
#endif
    CHECK(ls_n_spec == ls_n_impl, "both call sequences run the permutation equally often");
    WITNESS();
}
