/* C07: re-initialising a used object is indistinguishable from initialising a fresh one.
 * The used object is ARBITRARY (all fields symbolic = every history).  Run A: fresh init
 * (recorded); run B: reinit of the arbitrary object (replayed).  All named fields must agree.
 * KIND 0 hash 1 hasha 2 xof 3 xofa 4 xof_fixed(FIXLEN) 5 xofa_fixed 6 xof_custom 7 xofa_custom
 *      8 prf 9 prf_fixed 10 kmac 11 kmaca 12 kdf 13 kdfa 14 hmac 15 hmaca 16..18 aead 128/128a/80pq
 */
#include "vh.h"
#include "spec.h"
#include "lockstep.h"
#include <ascon/xof.h>
#include <ascon/hash.h>
#include <ascon/prf.h>
#include <ascon/hmac.h>
#include <ascon/kmac.h>
#include <ascon/kdf.h>
#include <ascon/aead.h>
#ifndef FIXLEN
#define FIXLEN 0
#endif

static int same_state(const ascon_state_t *a, const ascon_state_t *b)
{
    uint64_t x[5], y[5];
    ls_to_canon(a, x); ls_to_canon(b, y);
    return x[0] == y[0] && x[1] == y[1] && x[2] == y[2] && x[3] == y[3] && x[4] == y[4];
}
#define ARB_XOF(o) do { uint64_t x_[5]; unsigned i_; for (i_ = 0; i_ < 5; ++i_) x_[i_] = nondet_u64(); \
    ls_from_canon(&(o)->state, x_); (o)->count = nondet_uchar(); (o)->mode = nondet_uchar(); } while (0)
#define SAME_XOF(p, q) (same_state(&(p)->state, &(q)->state) && (p)->count == (q)->count && (p)->mode == (q)->mode)

void harness(void)
{
    SYM_BYTES(key, 40);
    SYM_BYTES(custom, 9);
    SYM_BYTES(npub, 16);
    int ok = 0;
#if KIND == 0
    ascon_hash_state_t f, u; ARB_XOF(&u.xof); ascon_hash_init(&f); ls_replay_mode = 1; ascon_hash_reinit(&u); ok = SAME_XOF(&f.xof, &u.xof);
#elif KIND == 1
    ascon_hasha_state_t f, u; ARB_XOF(&u.xof); ascon_hasha_init(&f); ls_replay_mode = 1; ascon_hasha_reinit(&u); ok = SAME_XOF(&f.xof, &u.xof);
#elif KIND == 2
    ascon_xof_state_t f, u; ARB_XOF(&u); ascon_xof_init(&f); ls_replay_mode = 1; ascon_xof_reinit(&u); ok = SAME_XOF(&f, &u);
#elif KIND == 3
    ascon_xofa_state_t f, u; ARB_XOF(&u); ascon_xofa_init(&f); ls_replay_mode = 1; ascon_xofa_reinit(&u); ok = SAME_XOF(&f, &u);
#elif KIND == 4
    ascon_xof_state_t f, u; ARB_XOF(&u); ascon_xof_init_fixed(&f, FIXLEN); ls_replay_mode = 1; ascon_xof_reinit_fixed(&u, FIXLEN); ok = SAME_XOF(&f, &u);
#elif KIND == 5
    ascon_xofa_state_t f, u; ARB_XOF(&u); ascon_xofa_init_fixed(&f, FIXLEN); ls_replay_mode = 1; ascon_xofa_reinit_fixed(&u, FIXLEN); ok = SAME_XOF(&f, &u);
#elif KIND == 6
    ascon_xof_state_t f, u; ARB_XOF(&u); ascon_xof_init_custom(&f, "Name", custom, 9, FIXLEN); ls_replay_mode = 1; ascon_xof_reinit_custom(&u, "Name", custom, 9, FIXLEN); ok = SAME_XOF(&f, &u);
#elif KIND == 7
    ascon_xofa_state_t f, u; ARB_XOF(&u); ascon_xofa_init_custom(&f, "Name", custom, 9, FIXLEN); ls_replay_mode = 1; ascon_xofa_reinit_custom(&u, "Name", custom, 9, FIXLEN); ok = SAME_XOF(&f, &u);
#elif KIND == 8
    ascon_prf_state_t f, u; ARB_XOF(&u); ascon_prf_init(&f, key); ls_replay_mode = 1; ascon_prf_reinit(&u, key); ok = SAME_XOF(&f, &u);
#elif KIND == 9
    ascon_prf_state_t f, u; ARB_XOF(&u); ascon_prf_fixed_init(&f, key, FIXLEN); ls_replay_mode = 1; ascon_prf_fixed_reinit(&u, key, FIXLEN); ok = SAME_XOF(&f, &u);
#elif KIND == 10
    ascon_kmac_state_t f, u; ARB_XOF(&u.xof); ascon_kmac_init(&f, key, 17, custom, 9, FIXLEN); ls_replay_mode = 1; ascon_kmac_reinit(&u, key, 17, custom, 9, FIXLEN); ok = SAME_XOF(&f.xof, &u.xof);
#elif KIND == 11
    ascon_kmaca_state_t f, u; ARB_XOF(&u.xof); ascon_kmaca_init(&f, key, 17, custom, 9, FIXLEN); ls_replay_mode = 1; ascon_kmaca_reinit(&u, key, 17, custom, 9, FIXLEN); ok = SAME_XOF(&f.xof, &u.xof);
#elif KIND == 12
    ascon_kdf_state_t f, u; ARB_XOF(&u.state); ascon_kdf_init(&f, key, 17, custom, 9, FIXLEN); ls_replay_mode = 1; ascon_kdf_reinit(&u, key, 17, custom, 9, FIXLEN); ok = SAME_XOF(&f.state, &u.state);
#elif KIND == 13
    ascon_kdfa_state_t f, u; ARB_XOF(&u.state); ascon_kdfa_init(&f, key, 17, custom, 9, FIXLEN); ls_replay_mode = 1; ascon_kdfa_reinit(&u, key, 17, custom, 9, FIXLEN); ok = SAME_XOF(&f.state, &u.state);
#elif KIND == 14
    ascon_hmac_state_t f, u; ARB_XOF(&u.hash.xof); ascon_hmac_init(&f, key, 17); ls_replay_mode = 1; ascon_hmac_reinit(&u, key, 17); ok = SAME_XOF(&f.hash.xof, &u.hash.xof);
#elif KIND == 15
    ascon_hmaca_state_t f, u; ARB_XOF(&u.hash.xof); ascon_hmaca_init(&f, key, 17); ls_replay_mode = 1; ascon_hmaca_reinit(&u, key, 17); ok = SAME_XOF(&f.hash.xof, &u.hash.xof);
#elif KIND >= 16
#if KIND == 16
#define A(x) ascon128_aead_##x
    ascon128_state_t f, u;
#elif KIND == 17
#define A(x) ascon128a_aead_##x
    ascon128a_state_t f, u;
#else
#define A(x) ascon80pq_aead_##x
    ascon80pq_state_t f, u;
#endif
    {
        uint64_t x_[5]; unsigned i_;
        SYM_BYTES(ad, 9); SYM_BYTES(m, 9);
        unsigned char c1[9], c2[9], t1[16], t2[16];
        for (i_ = 0; i_ < 5; ++i_) x_[i_] = nondet_u64();
        ls_from_canon(&u.state, x_);
        vh_sym_bytes(u.key, sizeof(u.key)); vh_sym_bytes(u.nonce, 16); u.posn = nondet_uchar();
        A(init)(&f, npub, key);
        A(start)(&f, ad, 9); A(encrypt_block)(&f, m, c1, 9); A(encrypt_finalize)(&f, t1);
        ls_replay_mode = 1;
        A(reinit)(&u, npub, key);
        ok = vh_eq_bytes(u.key, key, sizeof(u.key)) && vh_eq_bytes(u.nonce, npub, 16) && u.posn == 0;
        CHECK(ok, "reinit stores key and nonce and resets the position");
        A(start)(&u, ad, 9); A(encrypt_block)(&u, m, c2, 9); A(encrypt_finalize)(&u, t2);
        ok = vh_eq_bytes(c1, c2, 9) && vh_eq_bytes(t1, t2, 16) && vh_eq_bytes(f.nonce, u.nonce, 16);
    }
#endif
    CHECK(ok, "re-initialised object equals a freshly initialised one");
    CHECK(ls_n_spec == ls_n_impl, "both runs evaluate the permutation equally often");
    WITNESS();
}
