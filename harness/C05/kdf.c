/* C05: HKDF / PBKDF2 / KDF against RFC 5869 / RFC 8018 / cXOF("KDF").
 * MODE 0 hkdf one-shot (FAM): IKM KLEN, salt SLEN, info ILEN, output OUTLEN
 *      1 hkdf limit: symbolic outlen > 8160 -> -1, output untouched, no processing
 *      2 hkdf_expand from an ARBITRARY state: prk, out, info symbolic; counter = CTR concrete per query
 *        (every value 0..255 in the thorough tier: it steers branches, and transcript form needs concrete control);
 *        posn = POSN concrete (drives copy lengths); one call of OUTLEN bytes; compared with the
 *        RFC step: left-over bytes first, then T(i) = HMAC(PRK, [T(i-1) unless i == 1] | info | i),
 *        zero fill and -1 exactly when the 8-bit counter has wrapped to 0
 *      3 pbkdf2 (cXOF PRF): password KLEN, salt SLEN, COUNT, OUTLEN
 *      4 pbkdf2_hmac
 *      5 kdf (FAM): key KLEN, custom SLEN, OUTLEN
 */
#include "vh.h"
#include "spec.h"
#include "lockstep.h"
#include <ascon/hkdf.h>
#include <ascon/pbkdf2.h>
#include <ascon/kdf.h>
#ifndef FAM
#define FAM 0
#endif
#ifndef ILEN
#define ILEN 0
#endif
#ifndef SLEN
#define SLEN 0
#endif
#ifndef COUNT
#define COUNT 1
#endif
#ifndef POSN
#define POSN 32
#endif
#ifndef CTR
#define CTR 1
#endif

void harness(void)
{
    SYM_BYTES(key, KLEN);
    SYM_BYTES(salt, SLEN);
    SYM_BYTES(info, ILEN);
    unsigned char out[OUTLEN > 0 ? OUTLEN : 1], exp[OUTLEN > 0 ? OUTLEN : 1], out0[OUTLEN > 0 ? OUTLEN : 1];
    int ok, rc = 0, rs = 0;
    vh_sym_bytes(out, OUTLEN);
    memcpy(out0, out, OUTLEN);
    memcpy(exp, out, OUTLEN);
#if MODE == 0
#if FAM == 0
    rc = ascon_hkdf(out, OUTLEN, key, KLEN, SLEN > 0 ? salt : (const unsigned char *)0, SLEN, ILEN > 0 ? info : (const unsigned char *)0, ILEN);
#else
    rc = ascon_hkdfa(out, OUTLEN, key, KLEN, SLEN > 0 ? salt : (const unsigned char *)0, SLEN, ILEN > 0 ? info : (const unsigned char *)0, ILEN);
#endif
    rs = spec_hkdf(FAM, exp, OUTLEN, key, KLEN, salt, SLEN, info, ILEN);
#elif MODE == 1
    {
        size_t ol = nondet_size();
        ASSUME(ol > 8160);
#if FAM == 0
        rc = ascon_hkdf(out, ol, key, KLEN, salt, SLEN, info, ILEN);
#else
        rc = ascon_hkdfa(out, ol, key, KLEN, salt, SLEN, info, ILEN);
#endif
        rs = -1;
        CHECK(ls_n_impl == 0, "refusal happens before any processing");
    }
#elif MODE == 2
    {
#if FAM == 0
        ascon_hkdf_state_t st;
#else
        ascon_hkdfa_state_t st;
#endif
        unsigned char prk[32], t[32], m[32 + ILEN + 1];
        unsigned counter = CTR, posn = POSN, done = 0, n, i;
        vh_sym_bytes(st.prk, 32); vh_sym_bytes(st.out, 32);
        st.counter = (unsigned char)counter; st.posn = POSN;
        memcpy(prk, st.prk, 32); memcpy(t, st.out, 32);
#if FAM == 0
        rc = ascon_hkdf_expand(&st, ILEN > 0 ? info : (const unsigned char *)0, ILEN, out, OUTLEN);
#else
        rc = ascon_hkdfa_expand(&st, ILEN > 0 ? info : (const unsigned char *)0, ILEN, out, OUTLEN);
#endif
        /* reference step */
        while (done < OUTLEN && posn < 32) exp[done++] = t[posn++];
        while (done < OUTLEN) {
            if (counter == 0) { while (done < OUTLEN) exp[done++] = 0; rs = -1; break; }
            n = 0;
            if (counter != 1) for (i = 0; i < 32; ++i) m[n++] = t[i];
            for (i = 0; i < ILEN; ++i) m[n++] = info[i];
            m[n++] = (unsigned char)counter;
            spec_hmac(FAM, t, prk, 32, m, n);
            counter = (counter + 1) & 0xff;
            posn = 0;
            while (done < OUTLEN && posn < 32) exp[done++] = t[posn++];
        }
        CHECK(st.counter == (unsigned char)counter && st.posn == (unsigned char)posn, "block counter and position advance as RFC 5869 prescribes");
        ok = vh_eq_bytes(st.out, t, 32) && vh_eq_bytes(st.prk, prk, 32);
        CHECK(ok, "retained block and PRK as prescribed");
    }
#elif MODE == 3
    ascon_pbkdf2(out, OUTLEN, KLEN > 0 ? key : (const unsigned char *)0, KLEN, SLEN > 0 ? salt : (const unsigned char *)0, SLEN, COUNT);
    spec_pbkdf2(exp, OUTLEN, key, KLEN, salt, SLEN, COUNT);
#elif MODE == 4
    ascon_pbkdf2_hmac(out, OUTLEN, KLEN > 0 ? key : (const unsigned char *)0, KLEN, SLEN > 0 ? salt : (const unsigned char *)0, SLEN, COUNT);
    spec_pbkdf2_hmac(exp, OUTLEN, key, KLEN, salt, SLEN, COUNT);
#elif MODE == 5
#if FAM == 0
    ascon_kdf(out, OUTLEN, key, KLEN, SLEN > 0 ? salt : (const unsigned char *)0, SLEN);
#else
    ascon_kdfa(out, OUTLEN, key, KLEN, SLEN > 0 ? salt : (const unsigned char *)0, SLEN);
#endif
    spec_kdf(FAM, exp, OUTLEN, key, KLEN, salt, SLEN);
#endif
    CHECK(rc == rs, "result code as specified");
    ok = vh_eq_bytes(out, exp, OUTLEN);
    CHECK(ok, "derived bytes equal the specified function (or untouched/zero-filled where prescribed)");
    (void)out0;
    ls_done_allow(2);
    WITNESS();
}
