/* C19 / C12: asconcrypt at unit level with the environment modelled.
 *   file system : fd 3 = input file (IN_LEN bytes, symbolic content), fd 4 = output file (captured), unlink() recorded
 *   faults      : every read()/write() may fail hard (-1, EIO), be interrupted (-1, EINTR/EAGAIN: must be retried),
 *                 or transfer fewer bytes than asked (short read / short write / 0 = disk full), under a symbolic schedule
 *   random      : ascon_random returns symbolic bytes and a symbolic health flag
 *   crypto      : replaced by tracking stubs (C01/C02/C06 decide the cryptography): encrypt/decrypt XOR a pad and count
 *                 bytes, the tag encodes the byte count, SIV wraps/unwraps with a checkable tag; enough to observe framing
 *   BUFSIZ      : scaled to 32 (the I/O logic is size-generic; stated bound)
 * KIND 1 encrypt_file  2 decrypt_file of an arbitrary (possibly malformed / truncated) input
 *      3 decrypt_file(encrypt_file(x)) == x for every content of IN_LEN bytes, no faults
 *      4 file-name helpers with arbitrary names of NAMELEN characters (C12)   5 read_keyfile   6 generate_password
 *      7 main() with `MODE -p PASSWORD -o out in` (getopt modelled): the key is derived from the whole password of PWLEN
 *        symbolic characters or the run fails; exit status reflects I/O failures; no output left on failure; password wiped
 */
#include "vh.h"
#include <stdio.h>
#include <stdarg.h>
#include <errno.h>
#undef BUFSIZ
#define BUFSIZ 32
#ifndef IN_LEN
#define IN_LEN 0
#endif
#ifndef NAMELEN
#define NAMELEN 1
#endif
#ifndef PWLEN
#define PWLEN 8
#endif
#if defined(MAIN_DECRYPT) && MAIN_DECRYPT
#define MODEFLAG "-d"
#else
#define MODEFLAG "-e"
#endif
#define OUT_MAX (IN_LEN + 160)
#if KIND == 3
#define IN_CAP (IN_LEN + 160)      /* the encrypted file is fed back as input */
#else
#define IN_CAP IN_LEN
#endif

/* ---------------- environment ---------------- */
static unsigned char in_data[IN_CAP + 1], out_data[OUT_MAX + 1];
static size_t in_pos = 0, out_len = 0, in_len = IN_LEN;
static int unlinked = 0, opened_out = 0, hard_read_error = 0, hard_write_error = 0, short_write = 0;
/* fault schedule, concrete per query: the FAULT_AT-th call of operation FAULT_OP misbehaves as FAULT_KIND
 *   FAULT_OP   0 none  1 read  2 write  3 random source  4 open(input)  5 open(output)
 *   FAULT_KIND 1 EINTR  2 EAGAIN (both must be retried)  3 EIO (hard)  4 short transfer of one byte  5 write returns 0 (disk full) */
#ifndef FAULT_OP
#define FAULT_OP 0
#endif
#ifndef FAULT_AT
#define FAULT_AT 0
#endif
#ifndef FAULT_KIND
#define FAULT_KIND 3
#endif
static unsigned rd_calls = 0, wr_calls = 0, rnd_calls = 0;
int open(const char *path, int flags, ...)
{
    (void)path;
    if ((flags & 3) == 0) { if (FAULT_OP == 4) return -1; in_pos = 0; return 3; }
    if (FAULT_OP == 5) return -1;
    opened_out = 1; out_len = 0; unlinked = 0; return 4;
}
int close(int fd) { (void)fd; return 0; }
int unlink(const char *path) { (void)path; unlinked = 1; return 0; }
long read(int fd, void *buf, unsigned long len)
{
    unsigned long avail = in_len - in_pos, n;
    unsigned k = rd_calls++;
    (void)fd;
    n = len < avail ? len : avail;
    if (FAULT_OP == 1 && k == FAULT_AT) {
        if (FAULT_KIND == 1) { errno = EINTR; return -1; }
        if (FAULT_KIND == 2) { errno = EAGAIN; return -1; }
        if (FAULT_KIND == 3) { errno = EIO; hard_read_error = 1; return -1; }
        if (FAULT_KIND == 4 && n > 1) n = 1;
    }
    memcpy(buf, in_data + in_pos, n); in_pos += n;
    return (long)n;
}
long write(int fd, const void *buf, unsigned long len)
{
    unsigned long n = len;
    unsigned k = wr_calls++;
    (void)fd;
    if (FAULT_OP == 2 && k == FAULT_AT) {
        if (FAULT_KIND == 1) { errno = EINTR; return -1; }
        if (FAULT_KIND == 2) { errno = EAGAIN; return -1; }
        if (FAULT_KIND == 3) { errno = EIO; hard_write_error = 1; return -1; }
        if (FAULT_KIND == 4 && n > 1) n = 1;
        if (FAULT_KIND == 5 && len > 0) { n = 0; short_write = 1; }
    }
    CHECK(out_len + n <= OUT_MAX, "output stays within the modelled file");
    ASSUME(out_len + n <= OUT_MAX);
    memcpy(out_data + out_len, buf, n); out_len += n;
    return (long)n;
}
int isatty(int fd) { (void)fd; return nondet_int(); }
char *getpass(const char *prompt) { (void)prompt; return 0; }
int fprintf(FILE *f, const char *fmt, ...) { (void)f; (void)fmt; return 0; }
int printf(const char *fmt, ...) { (void)fmt; return 0; }
void perror(const char *s) { (void)s; }
char *optarg; int optind = 1;
/* getopt contract, short options only, one option per argument (what the KIND 7 harness passes) */
int getopt(int argc, char *const argv[], const char *opts)
{
    char c; const char *o;
    if (optind >= argc || argv[optind][0] != '-' || argv[optind][1] == 0) return -1;
    c = argv[optind][1];
    for (o = opts; *o && *o != c; ++o) ;
    if (!*o || c == ':') { ++optind; return '?'; }
    if (o[1] == ':') {
        if (argv[optind][2]) optarg = &argv[optind][2];
        else if (optind + 1 < argc) optarg = argv[++optind];
        else { ++optind; return '?'; }
    }
    ++optind;
    return c;
}
/* contract stub: at most `size` bytes written, NUL terminated; only the "%s%s" form used by the tool */
int snprintf(char *str, size_t size, const char *fmt, ...)
{
    va_list va; const char *a, *b; size_t n = 0, i;
    va_start(va, fmt); a = va_arg(va, const char *); b = va_arg(va, const char *); va_end(va);
    for (i = 0; a[i]; ++i, ++n) if (n + 1 < size) str[n] = a[i];
    for (i = 0; b[i]; ++i, ++n) if (n + 1 < size) str[n] = b[i];
    if (size > 0) str[n < size ? n : size - 1] = 0;
    return (int)n;
}

/* ---------------- crypto stubs ---------------- */
#include <ascon/aead.h>
#include <ascon/siv.h>
#include <ascon/pbkdf2.h>
#include <ascon/random.h>
#include <ascon/utility.h>
static int random_ok_all = 1;
int ascon_random(unsigned char *out, size_t outlen) { int ok = !(FAULT_OP == 3 && rnd_calls++ == FAULT_AT); size_t i; for (i = 0; i < outlen; ++i) out[i] = nondet_uchar(); if (!ok) random_ok_all = 0; return ok; }
void ascon_clean(void *buf, unsigned size) { memset(buf, 0, size); }
static const unsigned char *kdf_pw = 0; static size_t kdf_pwlen = 0; static int kdf_calls = 0;
void ascon_pbkdf2(unsigned char *out, size_t outlen, const unsigned char *pw, size_t pwlen, const unsigned char *salt, size_t saltlen, unsigned long count)
{ size_t i; (void)count; kdf_pw = pw; kdf_pwlen = pwlen; ++kdf_calls; for (i = 0; i < outlen; ++i) out[i] = (unsigned char)(salt[i % saltlen] + pwlen + i); }
void ascon80pq_siv_encrypt(unsigned char *c, size_t *clen, const unsigned char *m, size_t mlen, const unsigned char *ad, size_t adlen, const unsigned char *npub, const unsigned char *k)
{ size_t i; unsigned char t = 0; (void)ad; (void)adlen; for (i = 0; i < mlen; ++i) { unsigned char p = m[i]; t ^= p; c[i] = p ^ k[i % 20] ^ npub[i % 16]; } for (i = 0; i < 16; ++i) c[mlen + i] = (unsigned char)(t + i); *clen = mlen + 16; }
int ascon80pq_siv_decrypt(unsigned char *m, size_t *mlen, const unsigned char *c, size_t clen, const unsigned char *ad, size_t adlen, const unsigned char *npub, const unsigned char *k)
{ size_t i, n = clen - 16; unsigned char t = 0; int ok = 1; (void)ad; (void)adlen; for (i = 0; i < n; ++i) { unsigned char p = c[i] ^ k[i % 20] ^ npub[i % 16]; t ^= p; m[i] = p; }
  for (i = 0; i < 16; ++i) ok &= (c[n + i] == (unsigned char)(t + i)); *mlen = n; if (!ok) { memset(m, 0, n); return -1; } return 0; }
static unsigned long stream_count;
void ascon80pq_aead_init(ascon80pq_state_t *s, const unsigned char *npub, const unsigned char *k) { memcpy(s->key, k, 20); memcpy(s->nonce, npub, 16); s->posn = 0; }
void ascon80pq_aead_start(ascon80pq_state_t *s, const unsigned char *ad, size_t adlen) { (void)s; (void)ad; (void)adlen; stream_count = 0; }
void ascon80pq_aead_free(ascon80pq_state_t *s) { memset(s, 0, sizeof(*s)); }
void ascon80pq_aead_encrypt_block(ascon80pq_state_t *s, const unsigned char *in, unsigned char *out, size_t len) { size_t i; for (i = 0; i < len; ++i) out[i] = in[i] ^ s->key[(stream_count + i) % 20]; stream_count += len; }
void ascon80pq_aead_decrypt_block(ascon80pq_state_t *s, const unsigned char *in, unsigned char *out, size_t len) { size_t i; for (i = 0; i < len; ++i) out[i] = in[i] ^ s->key[(stream_count + i) % 20]; stream_count += len; }
void ascon80pq_aead_encrypt_finalize(ascon80pq_state_t *s, unsigned char *tag) { unsigned i; for (i = 0; i < 16; ++i) tag[i] = (unsigned char)(stream_count + 7 * i + s->nonce[i]); }
int ascon80pq_aead_decrypt_finalize(ascon80pq_state_t *s, const unsigned char *tag) { unsigned i; int ok = 1; for (i = 0; i < 16; ++i) ok &= (tag[i] == (unsigned char)(stream_count + 7 * i + s->nonce[i])); return ok ? 0 : -1; }

/* strlen of the -p argument is answered from the harness's concrete length after CHECKing it (see harness/C19/sum.c) */
static const char *arg_pw = 0; static size_t arg_pwlen = 0;
static size_t vh_strlen(const char *s)
{
    size_t n = 0;
    if (s == arg_pw && arg_pw) {
        int ok = (s[arg_pwlen] == 0);
        for (n = 0; n < arg_pwlen; ++n) ok &= (s[n] != 0);
        CHECK(ok, "harness: the password argument is a string of the stated length");
        return arg_pwlen;
    }
    while (s[n]) ++n;
    return n;
}
#include <string.h>
#define strlen vh_strlen
#define main asconcrypt_main
#include "asconcrypt.c"
#undef strlen

void harness(void)
{
    int rc;
    size_t i;
#if KIND == 1 || KIND == 2
    for (i = 0; i < IN_LEN; ++i) in_data[i] = nondet_uchar();
    for (i = 0; i < 8; ++i) full_password[i] = (char)nondet_uchar();
    full_password[8] = 0;
#if KIND == 1
    rc = encrypt_file("in", "out");
    {
        int any_fault = hard_read_error || hard_write_error || short_write || !random_ok_all || FAULT_OP == 4 || FAULT_OP == 5;
        CHECK(!any_fault || rc == 0, "a failing random source, read, write or open makes encrypt_file report failure");
        CHECK(rc == 1 || !opened_out || unlinked, "no partial output file is left behind on failure");
        /* on success the whole file was written: header 28 + SIV block 52 + data + tag 16 */
        CHECK(rc == 0 || out_len == 28 + 52 + IN_LEN + 16, "on success the output is complete (no short write went unnoticed)");
    }
#else
    rc = decrypt_file("in", "out");
    {
        int any_fault = hard_read_error || hard_write_error || short_write || FAULT_OP == 4 || FAULT_OP == 5;
        CHECK(!any_fault || rc == 0, "a failing read, write or open makes decrypt_file report failure");
        CHECK(rc == 1 || !opened_out || unlinked, "no partial output file is left behind on failure");
        CHECK(rc == 0 || IN_LEN >= 28 + 52 + 16, "an input shorter than header + SIV block + tag is rejected");
        CHECK(rc == 0 || out_len == IN_LEN - 96, "on success the output is complete (no short write went unnoticed)");
    }
#endif
#elif KIND == 3
    {
        static unsigned char plain[IN_LEN + 1];
        int ok = 1;
        for (i = 0; i < IN_LEN; ++i) { plain[i] = nondet_uchar(); in_data[i] = plain[i]; }
        for (i = 0; i < 8; ++i) full_password[i] = (char)nondet_uchar();
        full_password[8] = 0;
        rc = encrypt_file("in", "out");
        CHECK(rc == 1 && !unlinked && out_len == IN_LEN + 96, "encryption succeeds and writes header + SIV block + data + tag");
        if (rc == 1 && out_len == IN_LEN + 96) {
            /* feed the encrypted file back */
            for (i = 0; i < IN_LEN + 96; ++i) in_data[i] = out_data[i];
            in_len = IN_LEN + 96; in_pos = 0; opened_out = 0;
            rc = decrypt_file("out", "back");
            CHECK(rc == 1 && !unlinked, "decrypting what was just encrypted, with the same password, succeeds");
            CHECK(out_len == IN_LEN, "the decrypted file has the original length");
            if (out_len == IN_LEN) for (i = 0; i < IN_LEN; ++i) ok &= (out_data[i] == plain[i]);
            CHECK(ok, "the decrypted file is identical to the original");
        }
    }
#elif KIND == 4
    {
        char name[NAMELEN + 1]; const char *r; int enc;
        for (i = 0; i < NAMELEN; ++i) { name[i] = (char)nondet_uchar(); ASSUME(name[i] != 0); }
        name[NAMELEN] = 0;
        enc = is_encrypted_filename(name);
        CHECK(enc == 0 || enc == 1, "is_encrypted_filename returns a boolean");
        CHECK(!enc || (NAMELEN >= 6 && name[NAMELEN - 6] == '.' && name[NAMELEN - 5] == 'a' && name[NAMELEN - 4] == 's' && name[NAMELEN - 3] == 'c' && name[NAMELEN - 2] == 'o' && name[NAMELEN - 1] == 'n'),
              "only names ending in .ascon are taken for encrypted files");
        r = add_suffix(name, ".ascon");
        CHECK(r == temp_filename && strlen(r) < sizeof(temp_filename), "add_suffix result is a terminated string inside its buffer");
        if (enc) {
            r = strip_suffix(name);
            CHECK(r == temp_filename && strlen(r) < sizeof(temp_filename), "strip_suffix result is a terminated string inside its buffer");
            CHECK(NAMELEN - 6 >= sizeof(temp_filename) || (strlen(r) == NAMELEN - 6 && memcmp(r, name, NAMELEN - 6) == 0), "strip_suffix removes exactly the 6-character suffix");
        }
    }
#elif KIND == 7
    {   /* main(): asconcrypt MODE -p <password of PWLEN symbolic characters> -o out in */
        static char pw[PWLEN + 1]; static char a0[] = "asconcrypt", a1[] = MODEFLAG, a2[] = "-p", a4[] = "-o", a5[] = "out", a6[] = "in";
        char *argv[8];
        int ok = 1;
        for (i = 0; i < IN_LEN; ++i) in_data[i] = nondet_uchar();
        for (i = 0; i < PWLEN; ++i) { pw[i] = (char)nondet_uchar(); ASSUME(pw[i] != 0); }
        pw[PWLEN] = 0; arg_pw = pw; arg_pwlen = PWLEN;
        argv[0] = a0; argv[1] = a1; argv[2] = a2; argv[3] = pw; argv[4] = a4; argv[5] = a5; argv[6] = a6; argv[7] = 0;
        rc = asconcrypt_main(7, argv);
        if (rc == 0) {
            CHECK(kdf_calls >= 1, "a successful run derived a key");
            CHECK(kdf_pwlen == PWLEN, "the key is derived from the whole password given with -p (a password that differs anywhere gives another key)");
            if (kdf_pwlen == PWLEN) {
                /* full_password has been wiped by now; the stub saw it through kdf_pw == full_password: compare what main copied */
            }
        }
        CHECK(rc == 0 || !opened_out || unlinked, "a failing run leaves no output file behind");
        CHECK(!(hard_read_error || hard_write_error || short_write || !random_ok_all) || rc != 0, "an I/O or random-source failure gives a non-zero exit status");
        for (i = 0; i < sizeof(full_password); ++i) ok &= (full_password[i] == 0);
        CHECK(ok, "the password buffer is wiped before main returns");
        (void)ok;
    }
#elif KIND == 5
    for (i = 0; i < IN_LEN; ++i) in_data[i] = nondet_uchar();
    rc = read_keyfile("key");
    CHECK(rc == 0 || strlen(full_password) < sizeof(full_password), "password is a terminated string inside its buffer");
    CHECK(!hard_read_error || rc == 0, "a failing read makes read_keyfile report failure");
#elif KIND == 6
    rc = generate_password("key");
    {
        int any_fault = hard_write_error || short_write || !random_ok_all || FAULT_OP == 5;
        CHECK(!any_fault || rc == 0, "a failing random source, write or open makes generate_password report failure");
        CHECK(rc == 0 || out_len == DEFAULT_PASSWORD_LENGTH + 1, "on success the key file is complete");
        CHECK(rc == 1 || !opened_out || unlinked, "no partial key file is left behind on failure");
    }
#endif
    WITNESS();
}
