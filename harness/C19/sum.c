/* C19 / C12: asconsum at unit level.  The hash primitives are tracking stubs (C03 decides the digests): they record
 * every byte fed to them and return a symbolic digest per file; stdio is modelled (fopen/fread/fgets/ferror/printf).
 * KIND 1 hash_file(ALG): every byte of the file is hashed exactly once, in order, across buffer refills (buffer scaled
 *        to 32), and exactly "hex(digest)  name\n" is printed; a read error makes it return 0 and print no digest line.
 *      2 check_file: one well-formed line "<64 hex digits>  f" (digits symbolic, either case): prints "f: OK" and
 *        returns 1 exactly when the listed digest equals the computed one, otherwise "f: FAILED" and 0.
 *      3 check_file with an arbitrary line of LLEN symbolic characters (any LLEN up to 100; the listed file cannot be
 *        opened): memory safe for every such line, and the result is failure (a malformed line, or a well-formed one
 *        whose file cannot be read, both make check mode return 0).
 * strlen() of a buffer that fgets() just filled is answered from the model's concrete line length after CHECKing that
 * the buffer really is a string of that length (the symbolic characters are assumed non-NUL, so the answer is exact);
 * otherwise every later loop bound of the parser would be symbolic over the whole 1024-byte line buffer.
 */
#include "vh.h"
#include <stdio.h>
#include <stdarg.h>
#undef BUFSIZ
#define BUFSIZ 32
#ifndef FLEN
#define FLEN 0
#endif
#ifndef LLEN
#define LLEN 1
#endif
#ifndef ALG
#define ALG 0
#endif
#ifndef RDERR
#define RDERR 0
#endif
#ifndef VARIANT
#define VARIANT 0
#endif
#ifndef MAINALG
#define MAINALG 0
#endif
#ifndef MAINCHECK
#define MAINCHECK 0
#endif
#if MAINCHECK && MAINALG == 0
#define MAINFLAG "-c"
#elif MAINCHECK && MAINALG == 1
#define MAINFLAG "-ca"
#elif MAINCHECK && MAINALG == 2
#define MAINFLAG "-xc"
#elif MAINCHECK
#define MAINFLAG "-cy"
#elif MAINALG == 0
#define MAINFLAG "-h"
#elif MAINALG == 1
#define MAINFLAG "-a"
#elif MAINALG == 2
#define MAINFLAG "-x"
#else
#define MAINFLAG "-y"
#endif

/* ---- stdio model ---- */
typedef struct { const unsigned char *data; size_t len, pos; int err; int is_sums; } mfile_t;
static mfile_t files[3];
static unsigned char fcontent[FLEN + 1];
static char sums[128];
static unsigned char sums_nl[128];    /* concrete line structure: 1 where the character is a newline (symbolic characters are assumed not to be newline/NUL) */
static size_t sums_len;
static char outbuf[256]; static size_t outlen = 0;
static int fopen_fail_data = 0;
static const char SUMS_NAME[] = "sums";
static int open_sums_first = 0, fopen_calls = 0;
FILE *fopen(const char *name, const char *mode)
{
    (void)mode;
    if (open_sums_first && fopen_calls++ == 0) {    /* check mode opens the checksum file first; a listed name (symbolic characters) never aliases it */ files[0].data = (const unsigned char *)sums; files[0].len = sums_len; files[0].pos = 0; files[0].err = 0; return (FILE *)&files[0]; }
    if (fopen_fail_data) return 0;
    files[1].data = fcontent; files[1].len = FLEN; files[1].pos = 0; files[1].err = 0; return (FILE *)&files[1];
}
int fclose(FILE *f) { (void)f; return 0; }
static mfile_t *MF(FILE *f) { return (mfile_t *)f; }   /* files[2]: standard input (empty), see the stdin macro below */
int ferror(FILE *f) { return MF(f)->err; }
size_t fread(void *p, size_t sz, size_t n, FILE *f)
{
    mfile_t *m = MF(f); size_t want = sz * n, got = m->len - m->pos;
    if (RDERR && m->pos >= RDERR - 1) { m->err = 1; return 0; }
    if (got > want) got = want;
    memcpy(p, m->data + m->pos, got); m->pos += got; return got;
}
static const char *fgets_buf = 0; static size_t fgets_len = 0;
char *fgets(char *s, int size, FILE *f)
{
    mfile_t *m = MF(f); int n = 0;
    if (m->pos >= m->len) return 0;
    while (n + 1 < size && m->pos < m->len) { int nl = sums_nl[m->pos]; s[n++] = (char)m->data[m->pos++]; if (nl) break; }
    s[n] = 0; fgets_buf = s; fgets_len = (size_t)n; return s;
}
static size_t vh_strlen(const char *s)
{
    size_t n = 0;
    if (s == fgets_buf && fgets_buf) {
        int ok = (s[fgets_len] == 0);
        for (n = 0; n < fgets_len; ++n) ok &= (s[n] != 0);
        CHECK(ok, "stdio model: the line read by fgets is a string of the modelled length");
        fgets_buf = 0;              /* the tool edits the buffer afterwards */
        return fgets_len;
    }
    while (s[n]) ++n;
    return n;
}
static void put(char c) { if (outlen < sizeof(outbuf) - 1) outbuf[outlen++] = c; }
int printf(const char *fmt, ...)
{
    va_list va; va_start(va, fmt);
    while (*fmt) {
        if (fmt[0] == '%' && fmt[1] == '0' && fmt[2] == '2' && fmt[3] == 'x') {
#ifdef VERIF_REPLAY
            unsigned v = va_arg(va, unsigned);
#else
            unsigned v = va_arg(va, unsigned char);   /* CBMC's variadic model passes the argument unpromoted (the tool passes an unsigned char) */
#endif
 put("0123456789abcdef"[(v >> 4) & 15]); put("0123456789abcdef"[v & 15]); fmt += 4; }
        else if (fmt[0] == '%' && fmt[1] == 's') { const char *s = va_arg(va, const char *); while (*s) put(*s++); fmt += 2; }
        else put(*fmt++);
    }
    va_end(va); return 0;
}
int fprintf(FILE *f, const char *fmt, ...) { (void)f; (void)fmt; return 0; }
void perror(const char *s) { (void)s; }
char *optarg; int optind = 1;
/* getopt contract, short options without arguments, one or several per argument */
static int go_pos = 1;
int getopt(int argc, char *const argv[], const char *opts)
{
    char c; const char *o;
    if (optind >= argc || argv[optind][0] != '-' || argv[optind][1] == 0) return -1;
    c = argv[optind][go_pos];
    for (o = opts; *o && *o != c; ++o) ;
    if (argv[optind][go_pos + 1] == 0) { ++optind; go_pos = 1; } else ++go_pos;
    return *o ? c : '?';
}

/* ---- tracking hash stubs ---- */
#include <ascon/hash.h>
#include <ascon/xof.h>
static unsigned char fed[FLEN + 64]; static size_t fed_len = 0; static int which_alg = -1, inits = 0, finals = 0;
static unsigned char digest[32];
static void feed(const unsigned char *in, size_t n) { size_t i; for (i = 0; i < n; ++i) { if (fed_len < sizeof(fed)) fed[fed_len] = in[i]; ++fed_len; } }
static void fin(unsigned char *out, size_t n) { size_t i; ++finals; for (i = 0; i < n && i < 32; ++i) out[i] = digest[i]; }
void ascon_hash_init(ascon_hash_state_t *s) { (void)s; which_alg = 0; ++inits; }
void ascon_hash_update(ascon_hash_state_t *s, const unsigned char *in, size_t n) { (void)s; feed(in, n); }
void ascon_hash_finalize(ascon_hash_state_t *s, unsigned char *out) { (void)s; fin(out, 32); }
void ascon_hash_free(ascon_hash_state_t *s) { (void)s; }
void ascon_hasha_init(ascon_hasha_state_t *s) { (void)s; which_alg = 1; ++inits; }
void ascon_hasha_update(ascon_hasha_state_t *s, const unsigned char *in, size_t n) { (void)s; feed(in, n); }
void ascon_hasha_finalize(ascon_hasha_state_t *s, unsigned char *out) { (void)s; fin(out, 32); }
void ascon_hasha_free(ascon_hasha_state_t *s) { (void)s; }
void ascon_xof_init(ascon_xof_state_t *s) { (void)s; which_alg = 2; ++inits; }
void ascon_xof_absorb(ascon_xof_state_t *s, const unsigned char *in, size_t n) { (void)s; feed(in, n); }
void ascon_xof_squeeze(ascon_xof_state_t *s, unsigned char *out, size_t n) { (void)s; fin(out, n); }
void ascon_xof_free(ascon_xof_state_t *s) { (void)s; }
void ascon_xofa_init(ascon_xofa_state_t *s) { (void)s; which_alg = 3; ++inits; }
void ascon_xofa_absorb(ascon_xofa_state_t *s, const unsigned char *in, size_t n) { (void)s; feed(in, n); }
void ascon_xofa_squeeze(ascon_xofa_state_t *s, unsigned char *out, size_t n) { (void)s; fin(out, n); }
void ascon_xofa_free(ascon_xofa_state_t *s) { (void)s; }

#include <string.h>
#undef stdin
#define stdin ((FILE *)&files[2])
#define strlen vh_strlen
#define main asconsum_main
#include "asconsum.c"
#undef strlen

static int hexval(char c) { return (c >= '0' && c <= '9') ? c - '0' : (c >= 'a' && c <= 'f') ? c - 'a' + 10 : (c >= 'A' && c <= 'F') ? c - 'A' + 10 : -1; }

void harness(void)
{
    size_t i; int rc, ok;
    for (i = 0; i < FLEN; ++i) fcontent[i] = nondet_uchar();
    for (i = 0; i < 32; ++i) digest[i] = nondet_uchar();
    files[2].data = fcontent; files[2].len = 0; files[2].pos = 0; files[2].err = 0;    /* standard input: empty */
#if KIND == 1
    rc = hash_file("f", ALG);
    if (RDERR) {
        CHECK(rc == 0, "a read error makes hash_file report failure");
        CHECK(outlen == 0, "no digest line is printed for a file that could not be read");
    } else {
        char exp[70];
        CHECK(rc == 1 && which_alg == ALG && inits == 1 && finals == 1, "the selected algorithm is run once");
        ok = (fed_len == FLEN); for (i = 0; i < FLEN; ++i) ok &= (fed[i] == fcontent[i]);
        CHECK(ok, "every byte of the file is hashed exactly once and in order");
        for (i = 0; i < 32; ++i) { exp[2 * i] = "0123456789abcdef"[digest[i] >> 4]; exp[2 * i + 1] = "0123456789abcdef"[digest[i] & 15]; }
        exp[64] = ' '; exp[65] = ' '; exp[66] = 'f'; exp[67] = '\n';
        ok = (outlen == 68); for (i = 0; i < 68; ++i) ok &= (outbuf[i] == exp[i]);
        CHECK(ok, "exactly `<64 hex digits>  <name>` and a newline is printed");
    }
#elif KIND == 2
    {   /* the digits are concrete (two patterns covering every digit in both cases) so that the parser's control is concrete;
           the computed digest is symbolic, so both outcomes are decided; to_hex_digit itself is KIND 4 */
        static const char pat0[] = "00112233445566778899aabbccddeeff0123456789abcdeffedcba9876543210";
        static const char pat1[] = "FFEEDDCCBBAA99887766554433221100fEdCbA98765432100123456789AbCdEf";
        const char *pat = VARIANT ? pat1 : pat0;
        unsigned char listed[32]; int equal = 1;
        for (i = 0; i < 64; ++i) sums[i] = pat[i];
        sums[64] = ' '; sums[65] = ' '; sums[66] = 'f'; sums[67] = '\n'; sums_nl[67] = 1; sums_len = 68;
        for (i = 0; i < 32; ++i) { listed[i] = (unsigned char)(hexval(sums[2 * i]) * 16 + hexval(sums[2 * i + 1])); equal &= (listed[i] == digest[i]); }
        open_sums_first = 1; rc = check_file(SUMS_NAME, ALG);
        CHECK((rc == 1) == (equal != 0), "check mode succeeds exactly when the listed digest equals the computed digest");
        ok = equal ? (outlen == 6 && !memcmp(outbuf, "f: OK\n", 6)) : (outlen == 10 && !memcmp(outbuf, "f: FAILED\n", 10));
        CHECK(ok, "prints `name: OK` for a match and `name: FAILED` otherwise");
        CHECK(which_alg == ALG, "the selected algorithm is used");
        ok = (fed_len == FLEN); for (i = 0; i < FLEN; ++i) ok &= (fed[i] == fcontent[i]);
        CHECK(ok, "the listed file's bytes are what is hashed");
    }
#elif KIND == 6
    {   /* main(): asconsum <FLAG> f   and   asconsum -c<FLAG> sums : the flag selects the algorithm, the exit status reflects the outcome */
        static char a0[] = "asconsum", aflag[] = MAINFLAG, afile[] = "f";
        char *argv[4]; int expect_alg = MAINALG;
        argv[0] = a0; argv[1] = aflag; argv[2] = MAINCHECK ? (char *)SUMS_NAME : afile; argv[3] = 0;
#if MAINCHECK
        {
            static const char pat0[] = "00112233445566778899aabbccddeeff0123456789abcdeffedcba9876543210";
            int equal = 1;
            for (i = 0; i < 64; ++i) sums[i] = pat0[i];
            sums[64] = ' '; sums[65] = ' '; sums[66] = 'f'; sums[67] = '\n'; sums_nl[67] = 1; sums_len = 68;
            for (i = 0; i < 32; ++i) equal &= ((unsigned char)(hexval(sums[2 * i]) * 16 + hexval(sums[2 * i + 1])) == digest[i]);
            open_sums_first = 1;
            rc = asconsum_main(3, argv);
            CHECK((rc == 0) == (equal != 0), "check mode exits 0 exactly when every listed digest matches");
        }
#else
        rc = asconsum_main(3, argv);
        if (RDERR) CHECK(rc != 0, "a file that cannot be read gives a non-zero exit status");
        else CHECK(rc == 0 && outlen == 68, "a readable file gives exit status 0 and one digest line");
#endif
        CHECK(which_alg == expect_alg && inits == 1, "the option selects the algorithm: -h ASCON-HASH (default), -a ASCON-HASHA, -x ASCON-XOF, -y ASCON-XOFA");
    }
#elif KIND == 4
    {
        char c = (char)nondet_uchar();
        CHECK(to_hex_digit(c) == hexval(c), "to_hex_digit maps exactly 0-9 a-f A-F to their values and everything else to -1");
    }
#elif KIND == 3
    for (i = 0; i < LLEN; ++i) { sums[i] = (char)nondet_uchar(); ASSUME(sums[i] != '\n' && sums[i] != '\r' && sums[i] != 0); }
    sums[LLEN] = '\n'; sums_nl[LLEN] = 1; sums_len = LLEN + 1;
    fopen_fail_data = 1;
    open_sums_first = 1; rc = check_file(SUMS_NAME, ALG);
    {   /* the one way such a line can succeed: 64 hex digits, spaces, and the name "-" (standard input, empty here) */
        size_t k = 64; int names_stdin;
        while (k < LLEN && sums[k] == ' ') ++k;
        names_stdin = (LLEN >= 66 && k + 1 == LLEN && sums[k] == '-');
        CHECK(rc == 0 || names_stdin, "a checksum file whose only line is malformed, or names a file that cannot be opened, is reported as failure");
    }
    (void)ok;
#endif
    WITNESS();
}
