/* C09: "the configuration that enables the library's own acquire/release balance checker never aborts in
 * single-threaded use" for the code that uses the permutation state AND the random source: the masked AEADs.
 *
 * Real code: masked AEAD (ALG), masked key set-up, masked state/word helpers, the checker-instrumented back end
 * (src/core/ascon-direct-xor.c with ASCON_CHECK_ACQUIRE_RELEASE, abort() compiled as an assertion) and the host's real
 * random front end src/random/ascon-trng-mixer.c, which acquires its own permutation state for every draw.
 * Stubs: the permutations return arbitrary states (balance does not depend on values), the system seed source returns
 * arbitrary bytes and an arbitrary status.  All data symbolic; lengths concrete (ADLEN, MLEN).
 */
#include "vh.h"
#include <ascon/aead-masked.h>
#include <ascon/masking.h>
#include <ascon/permutation.h>
#include "masking/ascon-masked-state.h"
#include "random/ascon-trng.h"

void ascon_permute(ascon_state_t *state, uint8_t first_round)
{
    unsigned i;
    (void)first_round;
    for (i = 0; i < 5; ++i) state->S[i] = nondet_u64();
}
#define XPERM(n) void ascon_x##n##_permute(ascon_masked_state_t *state, uint8_t first_round, uint64_t *preserve) \
{ unsigned i, j; (void)first_round; \
  for (i = 0; i < 5; ++i) for (j = 0; j < ASCON_MASKED_MAX_SHARES; ++j) state->M[i].S[j] = nondet_u64(); \
  for (i = 0; i + 1 < n; ++i) preserve[i] = nondet_u64(); }
XPERM(2)
#if ASCON_MASKED_MAX_SHARES >= 3
XPERM(3)
#endif
#if ASCON_MASKED_MAX_SHARES >= 4
XPERM(4)
#endif
int ascon_trng_generate(unsigned char *out, size_t outlen)
{
    size_t i;
    for (i = 0; i < outlen; ++i) out[i] = nondet_uchar();
    return nondet_int() != 0;
}

#if ALG == 0
#define KEYT ascon_masked_key_128_t
#define KEYINIT ascon_masked_key_128_init
#define KEYFREE ascon_masked_key_128_free
#define KLEN 16
#define ENC ascon128_masked_aead_encrypt
#define DEC ascon128_masked_aead_decrypt
#elif ALG == 1
#define KEYT ascon_masked_key_128_t
#define KEYINIT ascon_masked_key_128_init
#define KEYFREE ascon_masked_key_128_free
#define KLEN 16
#define ENC ascon128a_masked_aead_encrypt
#define DEC ascon128a_masked_aead_decrypt
#else
#define KEYT ascon_masked_key_160_t
#define KEYINIT ascon_masked_key_160_init
#define KEYFREE ascon_masked_key_160_free
#define KLEN 20
#define ENC ascon80pq_masked_aead_encrypt
#define DEC ascon80pq_masked_aead_decrypt
#endif

void harness(void)
{
    unsigned char c[MLEN + 16], m2[MLEN + 1];
    size_t clen = 0, mlen = 0;
    KEYT mk;
    ascon_state_t probe;
    SYM_BYTES(key, KLEN); SYM_BYTES(npub, 16); SYM_BYTES(ad, ADLEN); SYM_BYTES(m, MLEN);
    KEYINIT(&mk, key);
    ENC(c, &clen, m, MLEN, ad, ADLEN, npub, &mk);
    vh_sym_bytes(c, MLEN + 16);
    (void)DEC(m2, &mlen, c, MLEN + 16, ad, ADLEN, npub, &mk);
    KEYFREE(&mk);
    /* everything has been released again: a fresh state can be initialised and freed */
    ascon_init(&probe);
    ascon_free(&probe);
    WITNESS();
}
