/* C04: ASCON-Prf / PrfShort / Mac / mac_verify / HMAC(A) / KMAC(A) against their models.
 * MODE 0 prf (arbitrary-length IV)   ascon_prf(out OUTLEN, in MLEN)
 *      1 prf_fixed                   ascon_prf_fixed (IV carries 8*OUTLEN)
 *      2 mac                         ascon_mac
 *      3 mac_verify                  symbolic presented tag: 0 iff tag == model tag
 *      4 prf_short                   MLEN, OUTLEN in 0..16
 *      5 prf_short range check       symbolic inlen/outlen (64-bit): -1 iff either > 16, output untouched
 *      6 hmac (FAM)                  key KLEN, message MLEN
 *      7 kmac (FAM)                  key KLEN, message MLEN, custom CLEN, output OUTLEN
 *      8 prf fixed, declared length  incremental API: ascon_prf_fixed_init with a SYMBOLIC declared output length
 *                                    (every value below 2^29, where 8*length fits the 32-bit IV field), absorb MLEN,
 *                                    squeeze the first OUTLEN bytes: equal to the model whose IV carries 8*length
 */
#include "vh.h"
#include "spec.h"
#include "lockstep.h"
#include <ascon/prf.h>
#include <ascon/hmac.h>
#include <ascon/kmac.h>
#ifndef OUTLEN
#define OUTLEN 16
#endif
#ifndef KLEN
#define KLEN 16
#endif
#ifndef CLEN
#define CLEN 0
#endif
#ifndef FAM
#define FAM 0
#endif

void harness(void)
{
    SYM_BYTES(key, KLEN);
    SYM_BYTES(msg, MLEN);
    SYM_BYTES(custom, CLEN);
    unsigned char out[OUTLEN > 0 ? OUTLEN : 1], exp[OUTLEN > 0 ? OUTLEN : 1], out0[OUTLEN > 0 ? OUTLEN : 1];
    int ok;
    vh_sym_bytes(out, OUTLEN);
    memcpy(out0, out, OUTLEN);
#if MODE == 0
    ascon_prf(out, OUTLEN, msg, MLEN, key);
    spec_prf(exp, OUTLEN, 0, msg, MLEN, key);
#elif MODE == 1
    ascon_prf_fixed(out, OUTLEN, msg, MLEN, key);
    spec_prf(exp, OUTLEN, OUTLEN * 8, msg, MLEN, key);
#elif MODE == 2
    ascon_mac(out, msg, MLEN, key);
    spec_mac(exp, msg, MLEN, key);
#elif MODE == 3
    {
        int rc = ascon_mac_verify(out, msg, MLEN, key);
        spec_mac(exp, msg, MLEN, key);
        ok = vh_eq_bytes(out, exp, 16);
        CHECK((rc == 0) == (ok != 0), "mac_verify succeeds exactly for the correct tag");
        CHECK(rc == 0 || rc == -1, "mac_verify returns 0 or -1");
        memcpy(exp, out, 16);
    }
#elif MODE == 4
    {
        int rc = ascon_prf_short(out, OUTLEN, msg, MLEN, key);
        int rs = spec_prf_short(exp, OUTLEN, msg, MLEN, key);
        CHECK(rc == 0 && rs == 0, "prf_short accepts input and output of at most 16 bytes");
    }
#elif MODE == 5
    {
        size_t il = nondet_size(), ol = nondet_size();
        int rc;
        unsigned char in16[16], o16[16], o160[16];
        vh_sym_bytes(in16, 16); vh_sym_bytes(o16, 16); memcpy(o160, o16, 16);
        ASSUME(il > 16 || ol > 16);
        rc = ascon_prf_short(o16, ol, in16, il, key);
        CHECK(rc == -1, "prf_short refuses input or output longer than 16 bytes");
        ok = vh_eq_bytes(o16, o160, 16);
        CHECK(ok, "refusal leaves the output untouched");
        CHECK(ls_n_impl == 0, "refusal happens before any processing");
        memcpy(exp, out, OUTLEN);
    }
#elif MODE == 6
#if FAM == 0
    ascon_hmac(out, KLEN > 0 ? key : (const unsigned char *)0, KLEN, msg, MLEN);
#else
    ascon_hmaca(out, KLEN > 0 ? key : (const unsigned char *)0, KLEN, msg, MLEN);
#endif
    spec_hmac(FAM, exp, key, KLEN, msg, MLEN);
#elif MODE == 7
#if FAM == 0
    ascon_kmac(key, KLEN, msg, MLEN, CLEN > 0 ? custom : (const unsigned char *)0, CLEN, out, OUTLEN);
#else
    ascon_kmaca(key, KLEN, msg, MLEN, CLEN > 0 ? custom : (const unsigned char *)0, CLEN, out, OUTLEN);
#endif
    spec_kmac(FAM, exp, OUTLEN, key, KLEN, msg, MLEN, custom, CLEN, OUTLEN == 32);
#elif MODE == 8
    {
        size_t fl = nondet_size();
        ascon_prf_state_t st;
        ASSUME(fl < (((size_t)1) << 29));
        ascon_prf_fixed_init(&st, key, fl);
        ascon_prf_absorb(&st, msg, MLEN);
        ascon_prf_squeeze(&st, out, OUTLEN);
        ascon_prf_free(&st);
        spec_prf(exp, OUTLEN, (uint32_t)(fl * 8U), msg, MLEN, key);
    }
#endif
    ok = vh_eq_bytes(out, exp, OUTLEN);
    CHECK(ok, "output equals the specified function");
    (void)out0;
    ls_done_allow(2);
    WITNESS();
}
