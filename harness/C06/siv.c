/* C06 / C02: ASCON-SIV (three variants) against doc/siv.dox.
 * MODE 0 encrypt, 1 decrypt (symbolic tag), 4 short input.  Shapes as harness/C01/aead.c. */
#include "vh.h"
#include "spec.h"
#include "lockstep.h"
#include <ascon/siv.h>

#if ALG == 0
#define KLEN 16
#define FN(x) ascon128_siv_##x
#elif ALG == 1
#define KLEN 16
#define FN(x) ascon128a_siv_##x
#else
#define KLEN 20
#define FN(x) ascon80pq_siv_##x
#endif
#ifndef INPLACE
#define INPLACE 0
#endif
#define ADP (ADLEN > 0 ? ad : (const unsigned char *)0)

void harness(void)
{
    SYM_BYTES(key, KLEN);
    SYM_BYTES(npub, 16);
    SYM_BYTES(ad, ADLEN);
    SYM_BYTES(msg, MLEN);
    SYM_BYTES(tagin, 16);
    unsigned char exp[MLEN > 0 ? MLEN : 1], exptag[16];
    size_t outlen = nondet_size(), outlen0 = outlen;
    int ok;
#if MODE == 0
    {
        unsigned char c[MLEN + 16];
        vh_sym_bytes(c, MLEN + 16);
#if INPLACE
        memcpy(c, msg, MLEN);
        FN(encrypt)(c, &outlen, c, MLEN, ADP, ADLEN, npub, key);
#else
        FN(encrypt)(c, &outlen, msg, MLEN, ADP, ADLEN, npub, key);
#endif
        spec_siv_encrypt(ALG, exp, exptag, msg, MLEN, ad, ADLEN, npub, key);
        CHECK(outlen == MLEN + 16, "reported ciphertext length is plaintext length + 16");
        ok = vh_eq_bytes(c, exp, MLEN);
        CHECK(ok, "SIV ciphertext equals documented construction");
        ok = vh_eq_bytes(c + MLEN, exptag, 16);
        CHECK(ok, "SIV tag equals documented construction");
    }
#elif MODE == 1
    {
        unsigned char c[MLEN + 16], m[MLEN > 0 ? MLEN : 1];
        int rc, tagok, zero = 1;
        unsigned i;
        memcpy(c, msg, MLEN);
        memcpy(c + MLEN, tagin, 16);
        vh_sym_bytes(m, MLEN);
#if INPLACE
        rc = FN(decrypt)(c, &outlen, c, MLEN + 16, ADP, ADLEN, npub, key);
        memcpy(m, c, MLEN);
#else
        rc = FN(decrypt)(m, &outlen, c, MLEN + 16, ADP, ADLEN, npub, key);
#endif
        spec_siv_decrypt(ALG, exp, exptag, msg, MLEN, tagin, ad, ADLEN, npub, key);
        tagok = vh_eq_bytes(tagin, exptag, 16);
        CHECK((rc == 0) == (tagok != 0), "SIV decrypt succeeds exactly when the recomputed tag equals the tag presented");
        CHECK(rc == 0 || rc < 0, "result is zero or negative");
        CHECK(outlen == MLEN, "reported plaintext length is ciphertext length - 16");
        ok = vh_eq_bytes(m, exp, MLEN);
        CHECK(rc != 0 || ok, "on success the plaintext equals the construction");
        for (i = 0; i < MLEN; ++i) zero &= (m[i] == 0);
        CHECK(rc == 0 || zero, "on failure every plaintext byte is zero");
    }
#elif MODE == 4
    {
        unsigned char c[SHORT > 0 ? SHORT : 1], m[1], m0;
        int rc;
        vh_sym_bytes(c, SHORT);
        m[0] = nondet_uchar(); m0 = m[0];
        rc = FN(decrypt)(m, &outlen, c, SHORT, ADP, ADLEN, npub, key);
        CHECK(rc < 0, "input shorter than the tag is refused with a negative result");
        CHECK(m[0] == m0 && outlen == outlen0, "refusal writes neither plaintext nor length");
        CHECK(ls_n_impl == 0, "refusal happens before any processing");
    }
#endif
    ls_done();
    WITNESS();
}
