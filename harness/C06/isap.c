/* C06 / C02: ISAP-A-128A / ISAP-A-128 / ISAP-A-80PQ against the ISAP v2.0 model.
 * MODE 0 encrypt, 1 decrypt (symbolic tag), 4 short input,
 *      5 key persistence: save/load round trip, key object unchanged by encrypt/decrypt,
 *        encrypt with the loaded key equals encrypt with the original. */
#include "vh.h"
#include "spec.h"
#include "lockstep.h"
#include <ascon/isap.h>

#if ALG == 0
#define KLEN 16
#define FN(x) ascon128a_isap_aead_##x
#define KT ascon128a_isap_aead_key_t
#elif ALG == 1
#define KLEN 16
#define FN(x) ascon128_isap_aead_##x
#define KT ascon128_isap_aead_key_t
#else
#define KLEN 20
#define FN(x) ascon80pq_isap_aead_##x
#define KT ascon80pq_isap_aead_key_t
#endif
#ifndef INPLACE
#define INPLACE 0
#endif
#define ADP (ADLEN > 0 ? ad : (const unsigned char *)0)

void harness(void)
{
    SYM_BYTES(key, KLEN);
    SYM_BYTES(npub, 16);
    SYM_BYTES(ad, ADLEN);
    SYM_BYTES(msg, MLEN);
    SYM_BYTES(tagin, 16);
    unsigned char exp[MLEN > 0 ? MLEN : 1], exptag[16];
    size_t outlen = nondet_size(), outlen0 = outlen;
    int ok;
    KT pk;
    spec_isap_key_t spk;
#if MODE != 5
    FN(init)(&pk, key);
    spec_isap_init(ALG, &spk, key);
#endif
#if MODE == 0
    {
        unsigned char c[MLEN + 16];
        vh_sym_bytes(c, MLEN + 16);
#if INPLACE
        memcpy(c, msg, MLEN);
        FN(encrypt)(c, &outlen, c, MLEN, ADP, ADLEN, npub, &pk);
#else
        FN(encrypt)(c, &outlen, msg, MLEN, ADP, ADLEN, npub, &pk);
#endif
        spec_isap_crypt(ALG, exp, msg, MLEN, npub, &spk);
        spec_isap_mac(ALG, exptag, exp, MLEN, ad, ADLEN, npub, &spk);
        CHECK(outlen == MLEN + 16, "reported ciphertext length is plaintext length + 16");
        ok = vh_eq_bytes(c, exp, MLEN);
        CHECK(ok, "ISAP ciphertext equals specification");
        ok = vh_eq_bytes(c + MLEN, exptag, 16);
        CHECK(ok, "ISAP tag equals specification");
    }
#elif MODE == 1
    {
        unsigned char c[MLEN + 16], m[MLEN > 0 ? MLEN : 1];
        int rc, tagok, zero = 1;
        unsigned i;
        memcpy(c, msg, MLEN);
        memcpy(c + MLEN, tagin, 16);
        vh_sym_bytes(m, MLEN);
#if INPLACE
        rc = FN(decrypt)(c, &outlen, c, MLEN + 16, ADP, ADLEN, npub, &pk);
        memcpy(m, c, MLEN);
#else
        rc = FN(decrypt)(m, &outlen, c, MLEN + 16, ADP, ADLEN, npub, &pk);
#endif
        spec_isap_mac(ALG, exptag, msg, MLEN, ad, ADLEN, npub, &spk);
        spec_isap_crypt(ALG, exp, msg, MLEN, npub, &spk);
        tagok = vh_eq_bytes(tagin, exptag, 16);
        CHECK((rc == 0) == (tagok != 0), "ISAP decrypt succeeds exactly when the tag is the specification's tag");
        CHECK(rc == 0 || rc < 0, "result is zero or negative");
        CHECK(outlen == MLEN, "reported plaintext length is ciphertext length - 16");
        ok = vh_eq_bytes(m, exp, MLEN);
        CHECK(rc != 0 || ok, "on success the plaintext equals the specification");
        for (i = 0; i < MLEN; ++i) zero &= (m[i] == 0);
        CHECK(rc == 0 || zero, "on failure every plaintext byte is zero");
    }
#elif MODE == 4
    {
        unsigned char c[SHORT > 0 ? SHORT : 1], m[1], m0;
        int rc;
        unsigned n0 = ls_n_impl;
        vh_sym_bytes(c, SHORT);
        m[0] = nondet_uchar(); m0 = m[0];
        rc = FN(decrypt)(m, &outlen, c, SHORT, ADP, ADLEN, npub, &pk);
        CHECK(rc < 0, "input shorter than the tag is refused with a negative result");
        CHECK(m[0] == m0 && outlen == outlen0, "refusal writes neither plaintext nor length");
        CHECK(ls_n_impl == n0, "refusal happens before any processing");
    }
#elif MODE == 5
    {
        /* arbitrary pre-computed key object (every history) */
        KT pk2;
        unsigned char saved[ASCON_ISAP_SAVED_KEY_SIZE], saved2[ASCON_ISAP_SAVED_KEY_SIZE];
        unsigned char c1[MLEN + 16], c2[MLEN + 16], m2[MLEN > 0 ? MLEN : 1];
        uint64_t ke[5], ka[5], t[5];
        unsigned i; int same = 1; size_t l1, l2, l3;
        for (i = 0; i < 5; ++i) { ke[i] = nondet_u64(); ka[i] = nondet_u64(); }
        ls_from_canon(&pk.ke, ke); ls_from_canon(&pk.ka, ka);
        FN(save_key)(&pk, saved);
        for (i = 0; i < 40; ++i) same &= (saved[i] == sx_get(ke, i)) && (saved[40 + i] == sx_get(ka, i));
        CHECK(same, "saved key is the canonical byte string of both pre-computed states");
        ls_to_canon(&pk.ke, t); same = 1; for (i = 0; i < 5; ++i) same &= (t[i] == ke[i]);
        ls_to_canon(&pk.ka, t); for (i = 0; i < 5; ++i) same &= (t[i] == ka[i]);
        CHECK(same, "saving leaves the pre-computed key object unchanged");
        FN(load_key)(&pk2, saved);
        FN(save_key)(&pk2, saved2);
        same = vh_eq_bytes(saved, saved2, 80);
        CHECK(same, "save(load(save(pk))) == save(pk)");
        ls_to_canon(&pk2.ke, t); same = 1; for (i = 0; i < 5; ++i) same &= (t[i] == ke[i]);
        ls_to_canon(&pk2.ka, t); for (i = 0; i < 5; ++i) same &= (t[i] == ka[i]);
        CHECK(same, "loaded key object equals the original");
        FN(encrypt)(c1, &l1, msg, MLEN, ADP, ADLEN, npub, &pk);
        ls_to_canon(&pk.ke, t); same = 1; for (i = 0; i < 5; ++i) same &= (t[i] == ke[i]);
        ls_to_canon(&pk.ka, t); for (i = 0; i < 5; ++i) same &= (t[i] == ka[i]);
        CHECK(same, "pre-computed key not modified by encrypt");
        FN(decrypt)(m2, &l3, c1, MLEN + 16, ADP, ADLEN, npub, &pk);
        ls_to_canon(&pk.ke, t); same = 1; for (i = 0; i < 5; ++i) same &= (t[i] == ke[i]);
        ls_to_canon(&pk.ka, t); for (i = 0; i < 5; ++i) same &= (t[i] == ka[i]);
        CHECK(same, "pre-computed key not modified by decrypt");
        /* with the real permutation (FORM_I) the loaded key must behave identically */
#if defined(FORM_I)
        FN(encrypt)(c2, &l2, msg, MLEN, ADP, ADLEN, npub, &pk2);
        same = vh_eq_bytes(c1, c2, MLEN + 16) && l1 == l2;
        CHECK(same, "encrypt with loaded key equals encrypt with original key");
#else
        (void)c2; (void)l2;
#endif
        (void)exp; (void)exptag; (void)spk; (void)ok; (void)outlen0;
    }
#endif
#if MODE != 5
    ls_done();
#endif
    WITNESS();
}
