/* C13: after free / clear the object retains nothing: every NAMED field byte is a constant
 * (zero), whatever the object held before (all fields symbolic = every history).
 * Padding bytes are excluded (stated); stack temporaries are not part of the property.
 * OBJ 0 ascon_state_t (ascon_free)      1..3 ascon128/128a/80pq_state_t (aead_free)
 *     4 xof 5 xofa 6 hash 7 hasha 8 prf 9 hmac 10 hmaca 11 kmac 12 kmaca 13 kdf 14 kdfa 15 hkdf 16 hkdfa
 *     17 random (ascon_random_free; `reserved` is not secret-derived and excluded)
 *     18..20 isap key 128a/128/80pq 21 masked key 128 22 masked key 160 23 masked state
 *     24 ascon_clean on a buffer of NBYTES
 */
#include "vh.h"
#include "spec.h"
#include "lockstep.h"
#include <ascon/aead.h>
#include <ascon/isap.h>
#include <ascon/hash.h>
#include <ascon/xof.h>
#include <ascon/prf.h>
#include <ascon/hmac.h>
#include <ascon/kmac.h>
#include <ascon/hkdf.h>
#include <ascon/kdf.h>
#include <ascon/random.h>
#include <ascon/masking.h>
#include <ascon/utility.h>
#include "masking/ascon-masked-state.h"

#ifdef IRPASS
/* second pass: the free functions are the clang -O3 IR of the same sources, translated by enc/llvm */
void ir_ascon_free(uint8_t *);
void ir_ascon128_aead_free(uint8_t *);
void ir_ascon128a_aead_free(uint8_t *);
void ir_ascon80pq_aead_free(uint8_t *);
void ir_ascon_xof_free(uint8_t *);
void ir_ascon_xofa_free(uint8_t *);
void ir_ascon_hash_free(uint8_t *);
void ir_ascon_hasha_free(uint8_t *);
void ir_ascon_prf_free(uint8_t *);
void ir_ascon_hmac_free(uint8_t *);
void ir_ascon_hmaca_free(uint8_t *);
void ir_ascon_kmac_free(uint8_t *);
void ir_ascon_kmaca_free(uint8_t *);
void ir_ascon_kdf_free(uint8_t *);
void ir_ascon_kdfa_free(uint8_t *);
void ir_ascon_hkdf_free(uint8_t *);
void ir_ascon_hkdfa_free(uint8_t *);
void ir_ascon_random_free(uint8_t *);
void ir_ascon128a_isap_aead_free(uint8_t *);
void ir_ascon128_isap_aead_free(uint8_t *);
void ir_ascon80pq_isap_aead_free(uint8_t *);
void ir_ascon_masked_key_128_free(uint8_t *);
void ir_ascon_masked_key_160_free(uint8_t *);
void ir_ascon_masked_state_free(uint8_t *);
#define FREE(fn, obj) ir_##fn((uint8_t *)&(obj))
#else
#define FREE(fn, obj) fn(&(obj))
#endif

static int zero_bytes(const void *p, size_t n)
{
    const unsigned char *b = (const unsigned char *)p; size_t i; int z = 1;
    for (i = 0; i < n; ++i) z &= (b[i] == 0);
    return z;
}
#define ARB(obj) vh_sym_bytes((unsigned char *)&(obj), sizeof(obj))
#define ZST(s) zero_bytes(&(s), sizeof(ascon_state_t))
#define ZXOF(x) (ZST((x).state) && (x).count == 0 && (x).mode == 0)

void harness(void)
{
    int ok = 0;
#if OBJ == 0
    ascon_state_t s; ARB(s); FREE(ascon_free, s); ok = ZST(s);
#elif OBJ == 1
    ascon128_state_t s; ARB(s); FREE(ascon128_aead_free, s); ok = ZST(s.state) && zero_bytes(s.key, sizeof(s.key)) && zero_bytes(s.nonce, 16) && s.posn == 0;
#elif OBJ == 2
    ascon128a_state_t s; ARB(s); FREE(ascon128a_aead_free, s); ok = ZST(s.state) && zero_bytes(s.key, sizeof(s.key)) && zero_bytes(s.nonce, 16) && s.posn == 0;
#elif OBJ == 3
    ascon80pq_state_t s; ARB(s); FREE(ascon80pq_aead_free, s); ok = ZST(s.state) && zero_bytes(s.key, sizeof(s.key)) && zero_bytes(s.nonce, 16) && s.posn == 0;
#elif OBJ == 4
    ascon_xof_state_t s; ARB(s); FREE(ascon_xof_free, s); ok = ZXOF(s);
#elif OBJ == 5
    ascon_xofa_state_t s; ARB(s); FREE(ascon_xofa_free, s); ok = ZXOF(s);
#elif OBJ == 6
    ascon_hash_state_t s; ARB(s); FREE(ascon_hash_free, s); ok = ZXOF(s.xof);
#elif OBJ == 7
    ascon_hasha_state_t s; ARB(s); FREE(ascon_hasha_free, s); ok = ZXOF(s.xof);
#elif OBJ == 8
    ascon_prf_state_t s; ARB(s); FREE(ascon_prf_free, s); ok = ZXOF(s);
#elif OBJ == 9
    ascon_hmac_state_t s; ARB(s); FREE(ascon_hmac_free, s); ok = ZXOF(s.hash.xof);
#elif OBJ == 10
    ascon_hmaca_state_t s; ARB(s); FREE(ascon_hmaca_free, s); ok = ZXOF(s.hash.xof);
#elif OBJ == 11
    ascon_kmac_state_t s; ARB(s); FREE(ascon_kmac_free, s); ok = ZXOF(s.xof);
#elif OBJ == 12
    ascon_kmaca_state_t s; ARB(s); FREE(ascon_kmaca_free, s); ok = ZXOF(s.xof);
#elif OBJ == 13
    ascon_kdf_state_t s; ARB(s); FREE(ascon_kdf_free, s); ok = ZXOF(s.state);
#elif OBJ == 14
    ascon_kdfa_state_t s; ARB(s); FREE(ascon_kdfa_free, s); ok = ZXOF(s.state);
#elif OBJ == 15
    ascon_hkdf_state_t s; ARB(s); FREE(ascon_hkdf_free, s); ok = zero_bytes(s.prk, 32) && zero_bytes(s.out, 32) && s.counter == 0 && s.posn == 0;
#elif OBJ == 16
    ascon_hkdfa_state_t s; ARB(s); FREE(ascon_hkdfa_free, s); ok = zero_bytes(s.prk, 32) && zero_bytes(s.out, 32) && s.counter == 0 && s.posn == 0;
#elif OBJ == 17
    ascon_random_state_t s; ARB(s); FREE(ascon_random_free, s); ok = ZXOF(s.xof) && s.counter == 0;
#elif OBJ == 18
    ascon128a_isap_aead_key_t s; ARB(s); FREE(ascon128a_isap_aead_free, s); ok = ZST(s.ke) && ZST(s.ka);
#elif OBJ == 19
    ascon128_isap_aead_key_t s; ARB(s); FREE(ascon128_isap_aead_free, s); ok = ZST(s.ke) && ZST(s.ka);
#elif OBJ == 20
    ascon80pq_isap_aead_key_t s; ARB(s); FREE(ascon80pq_isap_aead_free, s); ok = ZST(s.ke) && ZST(s.ka);
#elif OBJ == 21
    ascon_masked_key_128_t s; ARB(s); FREE(ascon_masked_key_128_free, s); ok = zero_bytes(&s, sizeof(s));
#elif OBJ == 22
    ascon_masked_key_160_t s; ARB(s); FREE(ascon_masked_key_160_free, s); ok = zero_bytes(&s, sizeof(s));
#elif OBJ == 23
    ascon_masked_state_t s; ARB(s); FREE(ascon_masked_state_free, s); ok = zero_bytes(&s, sizeof(s));
#elif OBJ == 24
    unsigned char b[NBYTES > 0 ? NBYTES : 1], guard = nondet_uchar(), g0 = guard;
    vh_sym_bytes(b, NBYTES); ascon_clean(b, NBYTES); ok = zero_bytes(b, NBYTES) && guard == g0;
#endif
    CHECK(ok, "every named byte of the object is zero after free/clear, whatever it held");
    WITNESS();
}
