/* C13 (C++ objects, optimised IR): after the destructor or clear() the object's storage no longer depends on the
 * key or nonce it held.  The class code is clang -O2 IR (whole-module optimised: a wipe the optimiser may elide
 * -- plain memset / field stores on a dying object -- is simply absent from the IR and the assertion fails).
 * The C API below the classes is replaced by contract stubs: *_free zeroes, *_init(key) encodes the key into the
 * object (so "still depends on the key" is observable), ascon_clean zeroes and may not be elided.
 * CLS 0..11 as harness/C17; USE_CLEAR 0 destructor / 1 clear(). */
#include "vh.h"
#include <ascon/isap.h>
#include <ascon/aead-masked.h>
#define WP(n) void ir_w_##n##_wipe(uint32_t, uint8_t *, uint64_t, uint8_t *, uint8_t *); uint64_t ir_w_##n##_sizeof(void); void ir_w_##n##_scope(uint8_t *, uint64_t, uint8_t *)
WP(aead128); WP(aead128a); WP(aead80pq); WP(siv128); WP(siv128a); WP(siv80pq); WP(isap128a); WP(isap128); WP(isap80pq); WP(masked128); WP(masked128a); WP(masked80pq);
#if CLS == 0
#define N aead128
#elif CLS == 1
#define N aead128a
#elif CLS == 2
#define N aead80pq
#elif CLS == 3
#define N siv128
#elif CLS == 4
#define N siv128a
#elif CLS == 5
#define N siv80pq
#elif CLS == 6
#define N isap128a
#elif CLS == 7
#define N isap128
#elif CLS == 8
#define N isap80pq
#elif CLS == 9
#define N masked128
#elif CLS == 10
#define N masked128a
#else
#define N masked80pq
#endif
#define CAT_(a, b, c) a##b##c
#define CAT(a, b, c) CAT_(a, b, c)
#if CLS == 2 || CLS == 5 || CLS == 8 || CLS == 11
#define KL 20
#else
#define KL 16
#endif

static void kobj_from_key(void *obj, size_t objsize, const unsigned char *key, size_t kl, unsigned char tag)
{
    unsigned char *p = (unsigned char *)obj; size_t i;
    for (i = 0; i < objsize; ++i) p[i] = (unsigned char)(tag + i);
    for (i = 0; i < kl; ++i) p[i] = key[i];
}
#define ISAP_STUBS(v, kl) \
void ascon##v##_isap_aead_init(ascon##v##_isap_aead_key_t *pk, const unsigned char *k) { kobj_from_key(pk, sizeof(*pk), k, kl, 0x11); } \
void ascon##v##_isap_aead_load_key(ascon##v##_isap_aead_key_t *pk, const unsigned char k[ASCON_ISAP_SAVED_KEY_SIZE]) { memcpy(pk, k, 80); } \
void ascon##v##_isap_aead_free(ascon##v##_isap_aead_key_t *pk) { if (pk) memset(pk, 0, sizeof(*pk)); }
ISAP_STUBS(128a, 16) ISAP_STUBS(128, 16) ISAP_STUBS(80pq, 20)
void ascon_masked_key_128_init(ascon_masked_key_128_t *mk, const unsigned char *k) { kobj_from_key(mk, sizeof(*mk), k, 16, 0x22); }
void ascon_masked_key_160_init(ascon_masked_key_160_t *mk, const unsigned char *k) { kobj_from_key(mk, sizeof(*mk), k, 20, 0x33); }
void ascon_masked_key_128_free(ascon_masked_key_128_t *mk) { if (mk) memset(mk, 0, sizeof(*mk)); }
void ascon_masked_key_160_free(ascon_masked_key_160_t *mk) { if (mk) memset(mk, 0, sizeof(*mk)); }
void ascon_clean(void *buf, unsigned size) { memset(buf, 0, size); }

#include <ascon/aead.h>
#include <ascon/siv.h>
/* encrypt entry points: opaque readers of key/nonce (contents irrelevant for C13) */
#define ENC(fn, KT) void fn(unsigned char *c, size_t *clen, const unsigned char *m, size_t mlen, const unsigned char *ad, size_t adlen, const unsigned char *npub, const KT *k) \
{ size_t i; (void)m; (void)ad; (void)adlen; (void)npub; (void)k; for (i = 0; i < mlen + 16 && i < 32; ++i) c[i] = nondet_uchar(); *clen = mlen + 16; }
ENC(ascon128_aead_encrypt, unsigned char) ENC(ascon128a_aead_encrypt, unsigned char) ENC(ascon80pq_aead_encrypt, unsigned char)
ENC(ascon128_siv_encrypt, unsigned char) ENC(ascon128a_siv_encrypt, unsigned char) ENC(ascon80pq_siv_encrypt, unsigned char)
ENC(ascon128a_isap_aead_encrypt, ascon128a_isap_aead_key_t) ENC(ascon128_isap_aead_encrypt, ascon128_isap_aead_key_t) ENC(ascon80pq_isap_aead_encrypt, ascon80pq_isap_aead_key_t)
ENC(ascon128_masked_aead_encrypt, ascon_masked_key_128_t) ENC(ascon128a_masked_aead_encrypt, ascon_masked_key_128_t) ENC(ascon80pq_masked_aead_encrypt, ascon_masked_key_160_t)
void ascon_aead_increment_nonce(unsigned char npub[16]) { unsigned i, carry = 1; for (i = 16; i > 0; --i) { carry += npub[i - 1]; npub[i - 1] = (unsigned char)carry; carry >>= 8; } }

static unsigned char *reg_p; static unsigned long reg_n; static unsigned char seen[256]; static int observed = 0;
void verif_register(void *p, unsigned long n) { reg_p = (unsigned char *)p; reg_n = n; }
void verif_use(void *p) { (void)p; }
void verif_observe(void) { unsigned long i; for (i = 0; i < reg_n && i < 256; ++i) seen[i] = reg_p[i]; observed = 1; }

void harness(void)
{
    SYM_BYTES(key, KL);
    SYM_BYTES(nonce, 16);
    unsigned char st[256], expect[256], zero[20];
    size_t sz = (size_t)CAT(ir_w_, N, _sizeof)(), i;
    int ok = 1;
    CHECK(sz <= 256 && sz > 8, "object size within the harness buffer");
    ASSUME(sz <= 256 && sz > 8);
    vh_sym_bytes(st, 256);
#if USE_CLEAR
    CAT(ir_w_, N, _wipe)(USE_CLEAR, key, KL, nonce, st);
#else
    CAT(ir_w_, N, _scope)(key, KL, nonce);
    CHECK(observed && reg_n == sz, "storage observed after the object's lifetime ended");
    memcpy(st, seen, 256);
#endif
    memset(expect, 0, 256); memset(zero, 0, 20);
#if CLS >= 6 && CLS <= 8 && USE_CLEAR
    kobj_from_key(expect + 8, 80, zero, KL, 0x11);      /* clear() re-keys with the all-zero key: a constant */
#endif
#if CLS <= 5
    sz = 8 + KL + 16;      /* named members only: trailing padding bytes are excluded (stated) */
#endif
    for (i = 8; i < sz; ++i) ok &= (st[i] == expect[i]);   /* bytes 0..7 hold the vtable pointer */
    CHECK(ok, "object storage after destructor/clear is a constant independent of the key and nonce it held");
    WITNESS();
}
