#include <stddef.h>
typedef size_t rsize_t;
int memset_s(void *s, rsize_t smax, int c, rsize_t n);
