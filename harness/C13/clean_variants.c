/* contract stub for memset_s (C11 Annex K): sets the bytes, may not be elided */
#include <stddef.h>
#include <string.h>
#if defined(VERIF_MEMSET_S) && !defined(VERIF_REPLAY)
int memset_s(void *s, size_t smax, int c, size_t n) { (void)smax; memset(s, c, n); return 0; }
#endif
