/* C10: masked permutations, per-round obligations (DESIGN 2.4).
 * KIND 0  R_r : run with `--unwindset <round loop>:1 --partial-loops`: prologue, exactly one
 *               round body with the constant of the concrete ROUND, epilogue.  For all shares and
 *               all `preserve`: unmask(result) == spec_round_ROUND(unmask(input)).
 * KIND 1  Z   : ROUND = 12: no iteration; identity on every share.
 * KIND 2  K   : concrete data, full run (normal unwinding): equals spec_permute -- pins loop
 *               control (trip count, increment, round-constant indexing).
 * KIND 3  2R  : like R_r with two bodies (unwindset :2).
 * KIND 4  F   : full symbolic run for ROUND >= RFULL (cheap for the last rounds): direct equality.
 * N = share count. */
#include "vh.h"
#include "spec.h"
#include "masked_model.h"
#define CAT_(a, b, c) a##b##c
#define CAT(a, b, c) CAT_(a, b, c)
#define PERM CAT(ascon_x, N, _permute)
void spec_P(uint64_t x[5], unsigned r) { spec_permute(x, r); }

void harness(void)
{
    ascon_masked_state_t st, st0;
    uint64_t x[5], y[5], preserve[4];
    unsigned i; int ok = 1;
#if KIND == 2
    for (i = 0; i < 5; ++i) {
        unsigned k;
        for (k = 0; k < ASCON_MASKED_MAX_SHARES; ++k)
            st.M[i].S[k] = 0x0123456789abcdefULL * (i + 3) + 0x1f2e3d4c5b6a7988ULL * (k + 1) + (i * 7 + k);
    }
    preserve[0] = 0x1122334455667788ULL; preserve[1] = 0x99aabbccddeeff00ULL; preserve[2] = 0x0f1e2d3c4b5a6978ULL; preserve[3] = 0;
#else
    for (i = 0; i < 5; ++i) mm_arbitrary(&st.M[i]);
    for (i = 0; i < 4; ++i) preserve[i] = nondet_u64();
#endif
    st0 = st;
    for (i = 0; i < 5; ++i) x[i] = mm_unmask(&st.M[i], N);
    PERM(&st, ROUND, preserve);
    for (i = 0; i < 5; ++i) y[i] = mm_unmask(&st.M[i], N);
#if KIND == 0
    spec_round(x, ROUND);
#elif KIND == 1
    for (i = 0; i < 5; ++i) { unsigned k; for (k = 0; k < ASCON_MASKED_MAX_SHARES; ++k) ok &= (st.M[i].S[k] == st0.M[i].S[k]); }
    CHECK(ok, "no rounds: every share unchanged");
    ok = 1;
#elif KIND == 3
    spec_round(x, ROUND); spec_round(x, ROUND + 1);
#else
    spec_permute(x, ROUND);
#endif
    for (i = 0; i < 5; ++i) ok &= (x[i] == y[i]);
    CHECK(ok, "un-masked result equals the specification");
    /* shares above N are not touched */
    ok = 1;
    for (i = 0; i < 5; ++i) { unsigned k; for (k = N; k < ASCON_MASKED_MAX_SHARES; ++k) ok &= (st.M[i].S[k] == st0.M[i].S[k]); }
    CHECK(ok, "shares above the share count untouched");
    WITNESS();
}
