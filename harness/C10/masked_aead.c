/* C10 / C01 / C02: masked AEAD == the ASCON v1.2 model, for every key, nonce, data,
 * every random tape and every sharing of the key.
 * ALG 0/1/2, ADLEN, MLEN, MODE 0 encrypt, 1 decrypt (symbolic tag), 4 short input.
 * KEYINIT 0: the masked key object is an ARBITRARY sharing of the key (every
 *            randomisation history); 1: built by ascon_masked_key_{128,160}_init.
 * Share configuration comes from config.h (one build per triple). */
#include "vh.h"
#include "spec.h"
#include "lockstep.h"
#include "masked_model.h"
#include <ascon/aead-masked.h>

#if ALG == 0
#define KLEN 16
#define FN(x) ascon128_masked_aead_##x
#define MK ascon_masked_key_128_t
#define MKINIT ascon_masked_key_128_init
#define NKW 2
#elif ALG == 1
#define KLEN 16
#define FN(x) ascon128a_masked_aead_##x
#define MK ascon_masked_key_128_t
#define MKINIT ascon_masked_key_128_init
#define NKW 2
#else
#define KLEN 20
#define FN(x) ascon80pq_masked_aead_##x
#define MK ascon_masked_key_160_t
#define MKINIT ascon_masked_key_160_init
#define NKW 6
#endif
#ifndef KEYINIT
#define KEYINIT 0
#endif
#define ADP (ADLEN > 0 ? ad : (const unsigned char *)0)

static uint64_t be64(const unsigned char *p)
{
    uint64_t v = 0; unsigned i;
    for (i = 0; i < 8; ++i) v = (v << 8) | p[i];
    return v;
}

void harness(void)
{
    SYM_BYTES(key, KLEN);
    SYM_BYTES(npub, 16);
    SYM_BYTES(ad, ADLEN);
    SYM_BYTES(msg, MLEN);
    SYM_BYTES(tagin, 16);
    unsigned char exp[MLEN > 0 ? MLEN : 1], exptag[16];
    size_t outlen = nondet_size(), outlen0 = outlen;
    MK mk;
    int ok;
#if KEYINIT
    MKINIT(&mk, key);
#else
    {
        uint64_t kw[6]; unsigned i;
        unsigned char t[8];
        kw[0] = be64(key); kw[1] = be64(key + 8);
#if ALG == 2
        memset(t, 0, 8); memcpy(t, key + 16, 4); kw[2] = be64(t);
        memset(t, 0, 8); memcpy(t + 4, key, 4); kw[3] = be64(t);
        kw[4] = be64(key + 4); kw[5] = be64(key + 12);
#else
        (void)t;
#endif
        for (i = 0; i < NKW; ++i) {
            unsigned k;
            for (k = 0; k < 4; ++k) mk.k[i].S[k] = nondet_u64();      /* garbage everywhere first */
            mm_share((ascon_masked_word_t *)&mk.k[i], ASCON_MASKED_KEY_SHARES, kw[i]);
        }
    }
#endif
#if MODE == 0
    {
        unsigned char c[MLEN + 16];
        vh_sym_bytes(c, MLEN + 16);
        FN(encrypt)(c, &outlen, msg, MLEN, ADP, ADLEN, npub, &mk);
        spec_aead_encrypt(ALG, exp, exptag, msg, MLEN, ad, ADLEN, npub, key);
        CHECK(outlen == MLEN + 16, "reported ciphertext length is plaintext length + 16");
        ok = vh_eq_bytes(c, exp, MLEN);
        CHECK(ok, "masked ciphertext equals specification");
        ok = vh_eq_bytes(c + MLEN, exptag, 16);
        CHECK(ok, "masked tag equals specification");
    }
#elif MODE == 1
    {
        unsigned char c[MLEN + 16], m[MLEN > 0 ? MLEN : 1];
        int rc, tagok, zero = 1;
        unsigned i;
        memcpy(c, msg, MLEN);
        memcpy(c + MLEN, tagin, 16);
        vh_sym_bytes(m, MLEN);
        rc = FN(decrypt)(m, &outlen, c, MLEN + 16, ADP, ADLEN, npub, &mk);
        spec_aead_decrypt(ALG, exp, exptag, msg, MLEN, ad, ADLEN, npub, key);
        tagok = vh_eq_bytes(tagin, exptag, 16);
        CHECK((rc == 0) == (tagok != 0), "masked decrypt succeeds exactly when the tag is the specification's tag");
        CHECK(rc == 0 || rc < 0, "result is zero or negative");
        CHECK(outlen == MLEN, "reported plaintext length is ciphertext length - 16");
        ok = vh_eq_bytes(m, exp, MLEN);
        CHECK(rc != 0 || ok, "on success the plaintext equals the specification");
        for (i = 0; i < MLEN; ++i) zero &= (m[i] == 0);
        CHECK(rc == 0 || zero, "on failure every plaintext byte is zero");
    }
#elif MODE == 4
    {
        unsigned char c[SHORT > 0 ? SHORT : 1], m[1], m0;
        int rc;
        vh_sym_bytes(c, SHORT);
        m[0] = nondet_uchar(); m0 = m[0];
        rc = FN(decrypt)(m, &outlen, c, SHORT, ADP, ADLEN, npub, &mk);
        CHECK(rc < 0, "input shorter than the tag is refused with a negative result");
        CHECK(m[0] == m0 && outlen == outlen0, "refusal writes neither plaintext nor length");
        CHECK(ls_n_impl == 0, "refusal happens before any processing");
    }
#endif
    (void)outlen0;
    ls_done();
    WITNESS();
}
