/* C10 / C12: every masked-word operation computes the plain operation on the
 * un-masked values, for arbitrary input shares (also garbage in the unused upper
 * shares) and every random tape.  N = share count (2,3,4), OP selects the
 * function, SIZE the byte count where one is taken (documented range).
 * OP 0 zero 1 load 2 load_partial 3 load_32 4 store 5 store_partial 6 randomize
 *    7 randomize in place 8 xor 9 replace 10 from_x(SRCN) 11 from_x(SRCN) in place 12 pad 13 separator
 * Objects are exactly sized, so any stray access is a bounds violation (C12). */
#include "vh.h"
#include "masked_model.h"
#include "random/ascon-trng.h"
#ifndef SIZE
#define SIZE 0
#endif
#define CAT_(a, b, c) a##b##c
#define CAT(a, b, c) CAT_(a, b, c)
#define W(op) CAT(ascon_masked_word_x, N, _##op)
#define FROM CAT(CAT(ascon_masked_word_x, N, _from_x), SRCN, )

static uint64_t be(const unsigned char *p, unsigned n)
{
    uint64_t v = 0; unsigned i;
    for (i = 0; i < n; ++i) v = (v << 8) | p[i];
    return v;
}

void harness(void)
{
    ascon_masked_word_t w, s, w0;
    ascon_trng_state_t trng;
    uint64_t vw, vs, r;
    int ok = 1;
    mm_arbitrary(&w); mm_arbitrary(&s);
    w0 = w;
    vw = mm_unmask(&w, N); vs = mm_unmask(&s, N);
    (void)vs; (void)vw; (void)r; (void)w0;
#if OP == 0
    W(zero)(&w, &trng);
    CHECK(mm_unmask(&w, N) == 0, "zero: un-masked value is 0");
    CHECK(mm_upper_zero(&w, N), "unused upper shares are zero");
#elif OP == 1
    { SYM_BYTES(d, 8); W(load)(&w, d, &trng);
      CHECK(mm_unmask(&w, N) == be(d, 8), "load: un-masked value is the big-endian word");
      CHECK(mm_upper_zero(&w, N), "unused upper shares are zero"); }
#elif OP == 2
    { SYM_BYTES(d, SIZE); W(load_partial)(&w, d, SIZE, &trng);
      CHECK(mm_unmask(&w, N) == (be(d, SIZE) << (64 - 8 * SIZE)), "load_partial: bytes land at the top, rest zero");
      CHECK(mm_upper_zero(&w, N), "unused upper shares are zero"); }
#elif OP == 3
    { SYM_BYTES(d1, 4); SYM_BYTES(d2, 4); W(load_32)(&w, d1, d2, &trng);
      CHECK(mm_unmask(&w, N) == ((be(d1, 4) << 32) | be(d2, 4)), "load_32: two big-endian halves");
      CHECK(mm_upper_zero(&w, N), "unused upper shares are zero"); }
#elif OP == 4
    { unsigned char d[8]; vh_sym_bytes(d, 8); W(store)(d, &w);
      CHECK(be(d, 8) == vw, "store: big-endian un-masked value"); }
#elif OP == 5
    { unsigned char d[SIZE]; vh_sym_bytes(d, SIZE); W(store_partial)(d, SIZE, &w);
      CHECK(be(d, SIZE) == (vw >> (64 - 8 * SIZE)), "store_partial: top bytes of the un-masked value"); }
#elif OP == 6
    W(randomize)(&w, &s, &trng);
    CHECK(mm_unmask(&w, N) == vs, "randomize: value preserved");
#elif OP == 7
    W(randomize)(&w, &w, &trng);
    CHECK(mm_unmask(&w, N) == vw, "randomize in place: value preserved");
#elif OP == 8
    W(xor)(&w, &s);
    CHECK(mm_unmask(&w, N) == (vw ^ vs), "xor: values XORed");
#elif OP == 9
    W(replace)(&w, &s, SIZE);
    { uint64_t keep = SIZE ? (~(uint64_t)0) >> (8 * SIZE) : ~(uint64_t)0;
      CHECK(mm_unmask(&w, N) == ((vw & keep) | (vs & ~keep)), "replace: top SIZE bytes taken from src"); }
#elif OP == 10
    FROM(&w, &s, &trng);
    CHECK(mm_unmask(&w, N) == mm_unmask(&s, SRCN), "from_xM: value preserved across share counts");
    CHECK(mm_upper_zero(&w, N), "unused upper shares are zero");
#elif OP == 11
    r = mm_unmask(&w, SRCN);
    FROM(&w, &w, &trng);
    CHECK(mm_unmask(&w, N) == r, "from_xM in place: value preserved across share counts");
    CHECK(mm_upper_zero(&w, N), "unused upper shares are zero");
#elif OP == 12
    ascon_masked_word_pad(&w, SIZE);
    CHECK(mm_unmask(&w, N) == (vw ^ ((uint64_t)0x80 << (56 - 8 * SIZE))), "pad: 0x80 at byte SIZE");
#elif OP == 13
    ascon_masked_word_separator(&w);
    CHECK(mm_unmask(&w, N) == (vw ^ 1), "separator: last bit flipped");
#endif
    (void)ok;
    WITNESS();
}
