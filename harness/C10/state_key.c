/* C10: masked state / key helpers.
 * KIND 0 xN_randomize           value preserved; every share refreshed
 *      1 xN_copy_to_x1          plain state == un-masked state
 *      2 xN_copy_from_x1        un-masked == plain
 *      3 xN_copy_from_xM        value preserved (M = SRCN), also in place
 *      4 masked_key_128: extract(init(k)) == k; randomize_with_trng preserves and refreshes
 *      5 masked_key_160: likewise
 * "Refreshed" is decided as: (a) for every share i below the share count the claim
 * "share i is unchanged" must be refutable (MUSTFAIL: the solver exhibits a tape that
 * changes it); (b) for i >= 1 every tape whose draws are all non-zero changes share i. */
#include "vh.h"
#include "spec.h"
#include "lockstep.h"
#include "masked_model.h"
#include <ascon/masking.h>
#include "random/ascon-trng.h"
extern unsigned trng_draws;
extern uint64_t trng_tape[];
/* spec_P: harness/common/lockstep.c (form I: the real specification permutation) */
#define CAT_(a, b, c) a##b##c
#define CAT(a, b, c) CAT_(a, b, c)

static int word_share_same(const ascon_masked_word_t *a, const ascon_masked_word_t *b, unsigned i) { return a->S[i] == b->S[i]; }

void harness(void)
{
    ascon_trng_state_t trng;
    unsigned i, k; int ok = 1;
#if KIND <= 3
    ascon_masked_state_t st, st0, src;
    uint64_t v[5];
    for (i = 0; i < 5; ++i) { mm_arbitrary(&st.M[i]); mm_arbitrary(&src.M[i]); }
    st0 = st;
#endif
#if KIND == 0
    for (i = 0; i < 5; ++i) v[i] = mm_unmask(&st.M[i], N);
    CAT(ascon_x, N, _randomize)(&st, &trng);
    for (i = 0; i < 5; ++i) ok &= (mm_unmask(&st.M[i], N) == v[i]);
    CHECK(ok, "randomize preserves the un-masked value");
    for (k = 0; k < N; ++k) {
        int same = 1;
        for (i = 0; i < 5; ++i) same &= word_share_same(&st.M[i], &st0.M[i], k);
        if (k == SHARE) MUSTFAIL(same, "share can stay unchanged for every tape (never refreshed)");
    }
    {
        int nz = 1, changed = 1;
        for (i = 0; i < trng_draws && i < 256; ++i) nz &= (trng_tape[i] != 0);
        for (i = 0; i < 5; ++i) changed &= !word_share_same(&st.M[i], &st0.M[i], SHARE);
        CHECK(SHARE == 0 || !nz || changed, "a tape of non-zero words changes this share of every word");
    }
#elif KIND == 1
    {
        ascon_state_t p; uint64_t x[5];
        for (i = 0; i < 5; ++i) v[i] = mm_unmask(&st.M[i], N);
        CAT(ascon_x, N, _copy_to_x1)(&p, &st);
        ls_to_canon(&p, x);
        for (i = 0; i < 5; ++i) ok &= (x[i] == v[i]);
        CHECK(ok, "copy_to_x1: plain state is the un-masked state");
    }
#elif KIND == 2
    {
        ascon_state_t p; uint64_t x[5];
        for (i = 0; i < 5; ++i) x[i] = nondet_u64();
        ls_from_canon(&p, x);
        CAT(ascon_x, N, _copy_from_x1)(&st, &p, &trng);
        for (i = 0; i < 5; ++i) ok &= (mm_unmask(&st.M[i], N) == x[i]);
        CHECK(ok, "copy_from_x1: un-masked state is the plain state");
    }
#elif KIND == 3
    for (i = 0; i < 5; ++i) v[i] = mm_unmask(&src.M[i], SRCN);
    CAT(CAT(ascon_x, N, _copy_from_x), SRCN, )(&st, &src, &trng);
    for (i = 0; i < 5; ++i) ok &= (mm_unmask(&st.M[i], N) == v[i]);
    CHECK(ok, "copy_from_xM: value preserved");
    for (i = 0; i < 5; ++i) v[i] = mm_unmask(&src.M[i], SRCN);
    CAT(CAT(ascon_x, N, _copy_from_x), SRCN, )(&src, &src, &trng);
    for (i = 0; i < 5; ++i) ok &= (mm_unmask(&src.M[i], N) == v[i]);
    CHECK(ok, "copy_from_xM in place: value preserved");
#elif KIND == 4 || KIND == 5
    {
#if KIND == 4
#define KL 16
#define NW 2
        ascon_masked_key_128_t mk, mk0;
        SYM_BYTES(key, KL); unsigned char out[KL];
        ascon_masked_key_128_init(&mk, key);
        ascon_masked_key_128_extract(&mk, out);
        ok = vh_eq_bytes(key, out, KL);
        CHECK(ok, "extract(init(key)) == key");
        mk0 = mk;
        ascon_masked_key_128_randomize_with_trng(&mk, &trng);
        ascon_masked_key_128_extract(&mk, out);
#else
#define KL 20
#define NW 6
        ascon_masked_key_160_t mk, mk0;
        SYM_BYTES(key, KL); unsigned char out[KL];
        ascon_masked_key_160_init(&mk, key);
        ascon_masked_key_160_extract(&mk, out);
        ok = vh_eq_bytes(key, out, KL);
        CHECK(ok, "extract(init(key)) == key");
        mk0 = mk;
        ascon_masked_key_160_randomize_with_trng(&mk, &trng);
        ascon_masked_key_160_extract(&mk, out);
#endif
        ok = vh_eq_bytes(key, out, KL);
        CHECK(ok, "randomize preserves the key");
        {
            int same = 1, nz = 1, changed = 1; unsigned d0 = 0;
            for (i = 0; i < NW; ++i) { same &= (mk.k[i].S[SHARE] == mk0.k[i].S[SHARE]); changed &= (mk.k[i].S[SHARE] != mk0.k[i].S[SHARE]); }
            MUSTFAIL(same, "key share can stay unchanged for every tape (never refreshed)");
            (void)d0;
            for (i = 0; i < trng_draws && i < 256; ++i) nz &= (trng_tape[i] != 0);
            CHECK(SHARE == 0 || !nz || changed, "a tape of non-zero words changes this share of every key word");
        }
    }
#endif
    WITNESS();
}
