/* C20: hex codec.
 * KIND 0 decode: INLEN characters (all symbolic), output space OUTLEN bytes in an exactly sized
 *        heap object (OUTLEN symbolic 0..OUTCAP when SYMOUT, else concrete): result and bytes equal
 *        the reference decoder; nothing written beyond the space (bounds check on the exact object)
 *      1 encode: NB bytes, out space OUTLEN: 2*NB characters + NUL, or -1 and only out[0] = 0
 *      2 round trip: decode(encode(b)) == b, both letter cases
 */
#include "vh.h"
#include <ascon/utility.h>
#include <stdlib.h>
#ifndef OUTCAP
#define OUTCAP 8
#endif

static int ref_digit(char c)
{
    if (c >= '0' && c <= '9') return c - '0';
    if (c >= 'a' && c <= 'f') return c - 'a' + 10;
    if (c >= 'A' && c <= 'F') return c - 'A' + 10;
    return -1;
}
static int ref_space(char c) { return c == ' ' || c == '\t' || c == '\r' || c == '\n' || c == '\f' || c == '\v'; }

void harness(void)
{
#if KIND == 0
    char in[INLEN > 0 ? INLEN : 1];
    unsigned char ref[INLEN / 2 + 1];
    size_t outlen, i, nd = 0, nb = 0;
    int bad = 0, hi = 0, rc, expect, ok = 1;
    unsigned char *out;
    for (i = 0; i < INLEN; ++i) in[i] = (char)nondet_uchar();
#ifdef SYMOUT
    outlen = nondet_size(); ASSUME(outlen <= OUTCAP);
#else
    outlen = OUTLEN;
#endif
    out = malloc(outlen); ASSUME(out != 0);
    for (i = 0; i < outlen; ++i) out[i] = nondet_uchar();
    for (i = 0; i < INLEN; ++i) {
        int d = ref_digit(in[i]);
        if (d >= 0) { if (nd & 1) ref[nb++] = (unsigned char)(hi | d); else hi = d << 4; ++nd; }
        else if (!ref_space(in[i])) bad = 1;
    }
    expect = (bad || (nd & 1) || nb > outlen) ? -1 : (int)nb;
    rc = ascon_bytes_from_hex(out, outlen, in, INLEN);
    CHECK(rc == expect, "decoder returns the number of bytes, or -1 for a bad character, an odd digit count or insufficient space");
    if (rc >= 0) for (i = 0; i < nb; ++i) ok &= (out[i] == ref[i]);
    CHECK(ok, "decoded bytes equal the reference");
#elif KIND == 1
    SYM_BYTES(b, NB);
    size_t outlen, i;
    char *out; int rc, up = nondet_int(), ok = 1;
    char out0 = (char)nondet_uchar();
#ifdef SYMOUT
    outlen = nondet_size(); ASSUME(outlen <= 2 * NB + 3);
#else
    outlen = OUTLEN;
#endif
    out = malloc(outlen); ASSUME(out != 0);
    for (i = 0; i < outlen; ++i) out[i] = out0;
    rc = ascon_bytes_to_hex(out, outlen, b, NB, up);
    if (outlen < 2 * NB + 1) {
        CHECK(rc == -1, "encoder refuses insufficient space");
        for (i = 1; i < outlen; ++i) ok &= (out[i] == out0);
        CHECK(ok && (outlen == 0 || out[0] == 0), "on refusal only out[0] is written (NUL)");
    } else {
        static const char lo[] = "0123456789abcdef", hi[] = "0123456789ABCDEF";
        CHECK(rc == 2 * NB, "encoder returns the number of characters");
        for (i = 0; i < NB; ++i) ok &= (out[2 * i] == (up ? hi : lo)[b[i] >> 4]) && (out[2 * i + 1] == (up ? hi : lo)[b[i] & 15]);
        ok &= (out[2 * NB] == 0);
        for (i = 2 * NB + 1; i < outlen; ++i) ok &= (out[i] == out0);
        CHECK(ok, "exactly 2n characters and a NUL are written");
    }
#else
    SYM_BYTES(b, NB);
    char hex[2 * NB + 1]; unsigned char back[NB > 0 ? NB : 1];
    int up = nondet_int(), r1, r2, ok;
    r1 = ascon_bytes_to_hex(hex, sizeof(hex), b, NB, up);
    r2 = ascon_bytes_from_hex(back, NB, hex, 2 * NB);
    ok = vh_eq_bytes(b, back, NB);
    CHECK(r1 == 2 * NB && r2 == NB && ok, "decode(encode(b)) == b");
#endif
    WITNESS();
}
