/* C20: extern "C" driver for the NO_STL byte_array (compiled with -DASCON_NO_STL by clang++ to IR, together with
 * src/cplusplus/ascon-byte-array.cpp) and for the bytes_from_hex helper. */
#include <ascon/utility.h>
static ascon::byte_array *V[3];
extern "C" void ba_init(void) { for (int i = 0; i < 3; ++i) V[i] = new ascon::byte_array(); }
extern "C" unsigned long ba_size(int i) { return V[i]->size(); }
extern "C" int ba_empty(int i) { return V[i]->empty(); }
extern "C" int ba_get(int i, unsigned long pos) { const ascon::byte_array &c = *V[i]; return c[pos]; }
extern "C" void ba_set(int i, unsigned long pos, unsigned char v) { (*V[i])[pos] = v; }
extern "C" void ba_construct(int i, unsigned long n, unsigned char v) { *V[i] = ascon::byte_array(n, v); }
extern "C" void ba_assign(int i, int j) { *V[i] = *V[j]; }
extern "C" void ba_copy(int i, int j) { ascon::byte_array t(*V[j]); *V[i] = t; }
extern "C" void ba_resize(int i, unsigned long n) { V[i]->resize(n); }
extern "C" void ba_reserve(int i, unsigned long n) { V[i]->reserve(n); }
extern "C" void ba_push(int i, unsigned char v) { V[i]->push_back(v); }
extern "C" void ba_pop(int i) { V[i]->pop_back(); }
extern "C" void ba_clear(int i) { V[i]->clear(); }
extern "C" void ba_data_write(int i, unsigned long pos, unsigned char v) { unsigned char *d = V[i]->data(); if (d) d[pos] = v; }
extern "C" void ba_index_move(int i, unsigned long d, unsigned long s) { ascon::byte_array &a = *V[i]; a[d] = a[s]; }
extern "C" void ba_swap(int i, unsigned long a, unsigned long b) { ascon::byte_array &r = *V[i]; unsigned char &x = r[a]; unsigned char &y = r[b]; unsigned char t = x; x = y; y = t; }
extern "C" void *ba_raw(int i) { return (void *)V[i]; }
extern "C" int ba_cmp(int i, int j, int which)
{
    const ascon::byte_array &a = *V[i], &b = *V[j];
    switch (which) { case 0: return a == b; case 1: return a != b; case 2: return a < b; case 3: return a <= b; case 4: return a > b; default: return a >= b; }
}
/* the hex helper: result size and contents */
extern "C" unsigned long hex_decode(const char *str, unsigned long len, unsigned char *out, unsigned long outcap)
{
    const ascon::byte_array r = ascon::bytes_from_hex(str, len);
    unsigned long n = r.size();
    const unsigned char *d = r.data();
    for (unsigned long k = 0; k < n && k < outcap; ++k) out[k] = d[k];
    return n;
}
