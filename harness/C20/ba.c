/* C20: the ASCON_NO_STL byte_array (reference-counted, copy-on-write) against a value model of
 * std::vector<unsigned char>, and the C++ bytes_from_hex helper.
 *
 * The C++ code (src/ascon/utility.h, src/cplusplus/ascon-byte-array.cpp and the extern "C" driver
 * harness/C20/ba_wrap.cpp) reaches CBMC through clang++ -> LLVM IR -> enc/llvm/ll2c.py; functions carry the ir_ prefix.
 *
 * KIND 0  STEPS operations, each chosen by the solver from the supported set, on three variables that may alias each
 *         other's buffer (copy construction / assignment share it); after every operation every variable's size and
 *         contents and every comparison operator must equal the value model.  Sizes are bounded by CAP.
 * KIND 1  a[0] = a[1] style double indexing of one non-const variable (reference stability, memory safety)
 * KIND 3  one operation from an arbitrary valid state (the inductive step that covers histories of any length): the three
 *         variables are placed in the sharing pattern PAT (digit per variable: 0 = no buffer, 1..3 = buffer id; variables
 *         with the same digit share one reference-counted buffer), every buffer has symbolic size <= CAP, symbolic
 *         capacity in [max(size,1), CAP+1] and symbolic contents, ref = number of sharers (the representation invariant);
 *         then one solver-chosen operation with solver-chosen arguments; afterwards the observers equal the model and the
 *         representation invariant holds again.
 * KIND 4  layout canary for KIND 3: a buffer built by the real constructor has the fields where KIND 3 writes them
 * KIND 2  hex helper: INLEN symbolic characters; the returned array must be exactly the bytes the C decoder produces
 *         (empty when it rejects the input)
 */
#include "vh.h"
#include <stdlib.h>
#include <ascon/utility.h>
#ifndef CAP
#define CAP 4
#endif

void ir_ba_init(void);
uint64_t ir_ba_size(int i);
int ir_ba_empty(int i);
int ir_ba_get(int i, uint64_t pos);
void ir_ba_set(int i, uint64_t pos, unsigned char v);
void ir_ba_construct(int i, uint64_t n, unsigned char v);
void ir_ba_assign(int i, int j);
void ir_ba_copy(int i, int j);
void ir_ba_resize(int i, uint64_t n);
void ir_ba_reserve(int i, uint64_t n);
void ir_ba_push(int i, unsigned char v);
void ir_ba_pop(int i);
void ir_ba_clear(int i);
void ir_ba_data_write(int i, uint64_t pos, unsigned char v);
void ir_ba_index_move(int i, uint64_t dst, uint64_t src);
int ir_ba_cmp(int i, int j, int which);
void ir_ba_swap(int i, uint64_t a, uint64_t b);
uint8_t *ir_ba_raw(int i);
uint64_t ir_hex_decode(uint8_t *str, uint64_t len, uint8_t *out, uint64_t outcap);

#if KIND == 0 || KIND == 1 || KIND == 3 || KIND == 4 || KIND == 5
static unsigned char M[3][CAP + 1];
static size_t L[3];

static int model_cmp(int i, int j)
{
    size_t k, n = L[i] < L[j] ? L[i] : L[j];
    for (k = 0; k < n; ++k)
        if (M[i][k] != M[j][k]) return M[i][k] < M[j][k] ? -1 : 1;
    return L[i] < L[j] ? -1 : (L[i] > L[j] ? 1 : 0);
}

/* the observers, at a variable / position / operator the solver picks: equivalent to checking all of them */
static void compare_all(void)
{
    unsigned i = nondet_uchar(), j = nondet_uchar(), which = nondet_uchar();
    size_t k = nondet_size();
    int c, r;
    ASSUME(i < 3 && j < 3 && which < 6 && k < CAP);
    CHECK(ir_ba_size(i) == L[i], "size() equals the vector model's after the operation (for every variable, including ones that only shared a buffer)");
    CHECK((ir_ba_empty(i) != 0) == (L[i] == 0), "empty() equals the vector model's");
    c = model_cmp(i, j);
    r = ir_ba_cmp(i, j, which) != 0;
    CHECK(r == (which == 0 ? c == 0 : which == 1 ? c != 0 : which == 2 ? c < 0 : which == 3 ? c <= 0 : which == 4 ? c > 0 : c >= 0),
          "== != < <= > >= order the arrays as std::vector does (lexicographic, shorter prefix first)");
    if (ir_ba_size(i) == L[i] && k < L[i])
        CHECK(ir_ba_get(i, k) == M[i][k], "contents equal the vector model's after the operation (for every variable)");
}
#endif

#if KIND == 3 || KIND == 4 || KIND == 5
struct priv { uint64_t ref, size, capacity; uint8_t *data; };     /* byte_array::byte_array_private on LP64; checked by KIND 4 */
static struct priv *P_of(int i) { return *(struct priv **)ir_ba_raw(i); }
#endif

void harness(void)
{
#if KIND == 3 || KIND == 5
    static const int pat[3] = { (PAT / 100) % 10, (PAT / 10) % 10, PAT % 10 };
    struct priv *G[4] = { 0, 0, 0, 0 };
    int g, i;
    size_t k;
    ir_ba_init();
    for (g = 1; g <= 3; ++g) {
        int members = (pat[0] == g) + (pat[1] == g) + (pat[2] == g);
        if (!members) continue;
        G[g] = malloc(sizeof(struct priv)); ASSUME(G[g] != 0);
        G[g]->ref = members;
        G[g]->size = nondet_size(); G[g]->capacity = nondet_size();
        ASSUME(G[g]->size <= CAP && G[g]->capacity >= G[g]->size && G[g]->capacity >= 1 && G[g]->capacity <= CAP + 1);
        G[g]->data = malloc(G[g]->capacity); ASSUME(G[g]->data != 0);
        for (k = 0; k < CAP + 1; ++k) if (k < G[g]->capacity) G[g]->data[k] = nondet_uchar();
    }
    for (i = 0; i < 3; ++i) {
        *(struct priv **)ir_ba_raw(i) = G[pat[i]];
        L[i] = pat[i] ? G[pat[i]]->size : 0;
        for (k = 0; k < CAP; ++k) if (pat[i] && k < L[i]) M[i][k] = G[pat[i]]->data[k];
    }
#if KIND == 5
    {   /* C16: the read-only members (size, empty, const operator[], comparison) leave the object AND the shared buffer
           bit-identical: constant arrays can be read from any number of threads */
        struct priv *P0[3], S0[3]; unsigned char D0[3][CAP + 1];
        unsigned op = nondet_uchar(), j = nondet_uchar(), which = nondet_uchar(), a = nondet_uchar();
        size_t n = nondet_size();
        int same = 1;
        i = nondet_uchar();
        ASSUME(op < 4 && i >= 0 && i < 3 && j < 3 && which < 6 && a < 3 && n < CAP);
        for (g = 0; g < 3; ++g) { P0[g] = P_of(g); if (P0[g]) { S0[g] = *P0[g]; for (k = 0; k < CAP + 1; ++k) if (k < S0[g].capacity) D0[g][k] = S0[g].data[k]; } }
        switch (op) {
        case 0: (void)ir_ba_size(i); break;
        case 1: (void)ir_ba_empty(i); break;
        case 2: ASSUME(n < L[i]); (void)ir_ba_get(i, n); break;
        default: (void)ir_ba_cmp(i, j, which); break;
        }
        same &= (P_of(a) == P0[a]);
        CHECK(same, "a read-only member leaves the array object itself unchanged (same buffer pointer)");
        if (P0[a] && same) {
            struct priv *q = P0[a];
            same &= (q->ref == S0[a].ref && q->size == S0[a].size && q->capacity == S0[a].capacity && q->data == S0[a].data);
            CHECK(same, "a read-only member leaves the shared buffer header (reference count, size, capacity, data pointer) unchanged");
            if (same) for (k = 0; k < CAP + 1; ++k) if (k < S0[a].capacity) same &= (q->data[k] == D0[a][k]);
            CHECK(same, "a read-only member leaves the bytes unchanged");
        }
    }
    WITNESS();
#else
    {
        unsigned op = nondet_uchar(), j = nondet_uchar(), a;
        size_t n = nondet_size(), m = nondet_size();
        unsigned char v = nondet_uchar();
        i = nondet_uchar();
        ASSUME(op < 12 && i >= 0 && i < 3 && j < 3 && n <= CAP && m <= CAP);
#ifdef OP
        ASSUME(op == OP);
#endif
        switch (op) {
        case 0: ir_ba_construct(i, n, v); L[i] = n; for (k = 0; k < CAP; ++k) if (k < n) M[i][k] = v; break;
        case 1: ir_ba_assign(i, j); L[i] = L[j]; for (k = 0; k < CAP; ++k) M[i][k] = M[j][k]; break;
        case 2: ir_ba_copy(i, j); L[i] = L[j]; for (k = 0; k < CAP; ++k) M[i][k] = M[j][k]; break;
        case 3: ir_ba_resize(i, n); for (k = 0; k < CAP; ++k) if (k >= L[i] && k < n) M[i][k] = 0; L[i] = n; break;
        case 4: ir_ba_reserve(i, n); break;
        case 5: ASSUME(L[i] < CAP); ir_ba_push(i, v); M[i][L[i]] = v; L[i]++; break;
        case 6: ASSUME(L[i] > 0); ir_ba_pop(i); L[i]--; break;
        case 7: ir_ba_clear(i); L[i] = 0; break;
        case 8: ASSUME(n < L[i]); ir_ba_set(i, n, v); M[i][n] = v; break;
        case 9: ASSUME(n < L[i]); ir_ba_data_write(i, n, v); M[i][n] = v; break;
        case 10: ASSUME(n < L[i] && m < L[i]); ir_ba_index_move(i, n, m); M[i][n] = M[i][m]; break;
        default: ASSUME(n < L[i] && m < L[i]); ir_ba_swap(i, n, m); { unsigned char t = M[i][n]; M[i][n] = M[i][m]; M[i][m] = t; } break;
        }
        compare_all();
        /* the representation invariant is re-established (closes the induction) */
        a = nondet_uchar(); ASSUME(a < 3);
        if (P_of(a)) {
            struct priv *q = P_of(a);
            CHECK(q->ref == (uint64_t)((P_of(0) == q) + (P_of(1) == q) + (P_of(2) == q)), "reference count equals the number of arrays sharing the buffer");
            CHECK(q->size <= q->capacity, "size <= capacity");
#ifndef VERIF_REPLAY
            CHECK(__CPROVER_OBJECT_SIZE(q->data) >= q->capacity, "the data object has capacity bytes");
#endif
        }
    }
    WITNESS();
#endif
#elif KIND == 4
    size_t n = nondet_size(), k = nondet_size();
    unsigned char v = nondet_uchar();
    ASSUME(n <= CAP && k < n);
    ir_ba_init();
    CHECK(P_of(0) == 0, "default-constructed array has no buffer");
    ir_ba_construct(0, n, v);
    CHECK(P_of(0) != 0 && P_of(0)->ref == 1 && P_of(0)->size == n && P_of(0)->capacity >= n && P_of(0)->capacity >= 1, "layout: ref, size, capacity");
    CHECK(P_of(0)->data[k] == v, "layout: data");
    ir_ba_assign(1, 0);
    CHECK(P_of(1) == P_of(0) && P_of(0)->ref == 2, "layout: sharing increments ref");
    WITNESS();
#elif KIND == 0
    int s;
    ir_ba_init();
#ifdef PRE
    {   /* a populated pre-state: two independent arrays and a copy of the first */
        size_t n0 = nondet_size(), n1 = nondet_size(), k;
        unsigned char v0 = nondet_uchar(), v1 = nondet_uchar();
        ASSUME(n0 <= CAP && n1 <= CAP);
        ir_ba_construct(0, n0, v0); L[0] = n0; for (k = 0; k < CAP; ++k) if (k < n0) M[0][k] = v0;
        ir_ba_construct(1, n1, v1); L[1] = n1; for (k = 0; k < CAP; ++k) if (k < n1) M[1][k] = v1;
        ir_ba_assign(2, 0); L[2] = n0; for (k = 0; k < CAP; ++k) M[2][k] = M[0][k];
    }
#endif
    for (s = 0; s < STEPS; ++s) {
        unsigned op = nondet_uchar(), i = nondet_uchar(), j = nondet_uchar();
        size_t n = nondet_size(), k;
        unsigned char v = nondet_uchar();
        size_t m = nondet_size();
        ASSUME(op < 12 && i < 3 && j < 3 && n <= CAP && m <= CAP);
#ifdef FIRST
        if (s == 0) ASSUME(op == FIRST);
#endif
#ifdef FIXI
        ASSUME(i == FIXI && j == FIXJ);
#endif
        switch (op) {
        case 0: ir_ba_construct(i, n, v); L[i] = n; for (k = 0; k < CAP; ++k) if (k < n) M[i][k] = v; break;
        case 1: ir_ba_assign(i, j); L[i] = L[j]; for (k = 0; k < CAP; ++k) M[i][k] = M[j][k]; break;
        case 2: ir_ba_copy(i, j); L[i] = L[j]; for (k = 0; k < CAP; ++k) M[i][k] = M[j][k]; break;
        case 3: ir_ba_resize(i, n); for (k = 0; k < CAP; ++k) if (k >= L[i] && k < n) M[i][k] = 0; L[i] = n; break;
        case 4: ir_ba_reserve(i, n); break;
        case 5: ASSUME(L[i] < CAP); ir_ba_push(i, v); M[i][L[i]] = v; L[i]++; break;
        case 6: ASSUME(L[i] > 0); ir_ba_pop(i); L[i]--; break;
        case 7: ir_ba_clear(i); L[i] = 0; break;
        case 8: ASSUME(n < L[i]); ir_ba_set(i, n, v); M[i][n] = v; break;
        case 9: ASSUME(n < L[i]); ir_ba_data_write(i, n, v); M[i][n] = v; break;
        case 10: ASSUME(n < L[i] && m < L[i]); ir_ba_index_move(i, n, m); M[i][n] = M[i][m]; break;
        default: ASSUME(n < L[i] && m < L[i]); ir_ba_swap(i, n, m); { unsigned char t = M[i][n]; M[i][n] = M[i][m]; M[i][m] = t; } break;
        }
        compare_all();
    }
    WITNESS();
#elif KIND == 1
    size_t n = nondet_size(), a = nondet_size(), b = nondet_size(), k;
    unsigned char v = nondet_uchar();
    ASSUME(n >= 1 && n <= CAP && a < n && b < n);
    ir_ba_init();
    ir_ba_construct(0, n, v); L[0] = n; for (k = 0; k < CAP; ++k) if (k < n) M[0][k] = v;
    ir_ba_set(0, a, (unsigned char)(v + 1)); M[0][a] = (unsigned char)(v + 1);
#if SHARED
    ir_ba_assign(1, 0); L[1] = L[0]; for (k = 0; k < CAP; ++k) M[1][k] = M[0][k];
#endif
    ir_ba_index_move(0, b, a); M[0][b] = M[0][a];
    compare_all();
    WITNESS();
#else
    char in[INLEN > 0 ? INLEN : 1];
    unsigned char ref[INLEN / 2 + 1], got[INLEN / 2 + 2];
    size_t i, n;
    int rc, ok = 1;
    for (i = 0; i < INLEN; ++i) in[i] = (char)nondet_uchar();
    rc = ascon_bytes_from_hex(ref, INLEN / 2, in, INLEN);
    n = ir_hex_decode((uint8_t *)in, INLEN, got, sizeof(got));
    CHECK(n == (rc < 0 ? 0 : (size_t)rc), "the C++ helper returns exactly the decoded bytes: its size is the decoder's count (empty on rejection)");
    if (rc >= 0 && n == (size_t)rc) for (i = 0; i < n; ++i) ok &= (got[i] == ref[i]);
    CHECK(ok, "the C++ helper's bytes equal the C decoder's");
    WITNESS();
#endif
}
