/* C11: ascon_random_save_seed / ascon_random_load_seed as a product program.  The saved seed is secret generator state
 * (random.h: "if the saved seed is captured by an adversary, then the value could be used to predict random output"):
 * the two copies read independent seed bytes from storage, hold independent generator states, and must agree on every
 * branch, address and length.  The storage description (sizes, callback pointers) and the number of bytes the storage
 * layer reports are public.  The storage callbacks are reached through pointers: the translator routes them to the pair
 * functions below. */
#include "vh.h"
#include <ascon/random.h>
#include <ascon/storage.h>
uint32_t ir_ascon_random_load_seed__pair(uint8_t *st_a, uint8_t *sto_a, uint8_t *st_b, uint8_t *sto_b, uint32_t *ret_b);
uint32_t ir_ascon_random_init__pair(uint8_t *st_a, uint8_t *st_b, uint32_t *ret_b);
uint32_t ir_ascon_random_save_seed__pair(uint8_t *st_a, uint8_t *sto_a, uint8_t *st_b, uint8_t *sto_b, uint32_t *ret_b);

static int dummy_read(const ascon_storage_t *s, size_t o, unsigned char *d, size_t n) { (void)s; (void)o; (void)d; (void)n; return 0; }
static int dummy_write(const ascon_storage_t *s, size_t o, const unsigned char *d, size_t n, int e) { (void)s; (void)o; (void)d; (void)n; (void)e; return 0; }

/* int (*read)(storage, offset, data, size): fills both buffers with independent (secret) bytes, returns a public count */
uint32_t verif_indirect_i32_pi64pi64__pair(uint8_t *fn, uint8_t *sa, uint64_t oa, uint8_t *da, uint64_t na,
                                           uint8_t *sb, uint64_t ob, uint8_t *db, uint64_t nb, uint32_t *ret_b)
{
    uint64_t i; uint32_t r = nondet_u32();
    (void)fn; (void)sa; (void)sb;
    CHECK(oa == ob && na == nb, "storage offset and size are public"); ASSUME(oa == ob && na == nb);
    ASSUME(na <= 64);
    for (i = 0; i < 64; ++i) if (i < na) { da[i] = nondet_uchar(); db[i] = nondet_uchar(); }
    *ret_b = r; return r;
}
/* int (*write)(storage, offset, data, size, erase) */
uint32_t verif_indirect_i32_pi64pi64i32__pair(uint8_t *fn, uint8_t *sa, uint64_t oa, uint8_t *da, uint64_t na, uint32_t ea,
                                              uint8_t *sb, uint64_t ob, uint8_t *db, uint64_t nb, uint32_t eb, uint32_t *ret_b)
{
    uint32_t r = nondet_u32();
    (void)fn; (void)sa; (void)sb; (void)da; (void)db;
    CHECK(oa == ob && na == nb && ea == eb, "storage offset, size and erase flag are public"); ASSUME(oa == ob && na == nb && ea == eb);
    *ret_b = r; return r;
}

void harness(void)
{
    ascon_random_state_t st_a, st_b;
    ascon_storage_t sto_a, sto_b;
    uint32_t rb = 0;
    size_t size = nondet_size(), erase = nondet_size();
    vh_sym_bytes((unsigned char *)&st_a, sizeof(st_a)); vh_sym_bytes((unsigned char *)&st_b, sizeof(st_b));
    memset(&sto_a, 0, sizeof(sto_a));
    sto_a.page_size = 1; sto_a.erase_size = erase; sto_a.address = 0; sto_a.size = size;
    sto_a.read = dummy_read; sto_a.write = dummy_write;
    sto_b = sto_a;
    /* the generator has been initialised (its reseed counter is public bookkeeping; the sponge state is secret) */
    (void)ir_ascon_random_init__pair((uint8_t *)&st_a, (uint8_t *)&st_b, &rb);
#if OP == 0
    (void)ir_ascon_random_load_seed__pair((uint8_t *)&st_a, (uint8_t *)&sto_a, (uint8_t *)&st_b, (uint8_t *)&sto_b, &rb);
#else
    (void)ir_ascon_random_save_seed__pair((uint8_t *)&st_a, (uint8_t *)&sto_a, (uint8_t *)&st_b, (uint8_t *)&sto_b, &rb);
#endif
    WITNESS();
}
