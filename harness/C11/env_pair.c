/* Environment for the product-program (constant-time) harnesses: pair versions of the
 * functions the translated code calls but that are not part of the unit under test.
 *   ascon_permute__pair         : (only when the permutation is abstracted) the start round is a
 *                                 public value; both states become independent fresh values
 *   ascon_trng_*__pair          : the random source; both copies get independent draws (secret)
 *   verif_explicit_bzero/new/delete : libc contracts used by the translated code */
#include "vh.h"
#include <stdlib.h>

void verif_explicit_bzero(uint8_t *p, size_t n) { memset(p, 0, n); }
uint8_t *verif_new(size_t n) { uint8_t *p = malloc(n); ASSUME(p != 0); return p; }
void verif_delete(uint8_t *p) { free(p); }

#ifdef ABSTRACT_PERMUTATION
struct st40 { uint8_t b[40]; };
struct st40 nondet_st40(void);
void ascon_permute__pair(uint8_t *sa, uint8_t ra, uint8_t *sb, uint8_t rb)
{
    unsigned i;
    CHECK(ra == rb, "secret-independent number of permutation rounds");
    ASSUME(ra == rb);
#if !defined(VERIF_REPLAY) && !defined(NOWITNESS)
    /* one assignment per state: symbolic execution cost matters when a family makes hundreds of calls */
    (void)i;
    *(struct st40 *)sa = nondet_st40();
    *(struct st40 *)sb = nondet_st40();
#else
    for (i = 0; i < 40; ++i) { sa[i] = nondet_uchar(); sb[i] = nondet_uchar(); }
#endif
}
#define MASKED_STUB(n) \
void ascon_x##n##_permute__pair(uint8_t *sa, uint8_t ra, uint8_t *pa, uint8_t *sb, uint8_t rb, uint8_t *pb) \
{ \
    unsigned i; \
    CHECK(ra == rb, "secret-independent number of permutation rounds"); \
    ASSUME(ra == rb); \
    for (i = 0; i < 5 * 8 * MAXSHARES; ++i) { sa[i] = nondet_uchar(); sb[i] = nondet_uchar(); } \
    for (i = 0; i < 8 * (n - 1); ++i) { pa[i] = nondet_uchar(); pb[i] = nondet_uchar(); } \
}
#ifdef MAXSHARES
MASKED_STUB(2)
#if MAXSHARES >= 3
MASKED_STUB(3)
#endif
#if MAXSHARES >= 4
MASKED_STUB(4)
#endif
#endif
#endif

uint64_t ascon_trng_generate_64__pair(uint8_t *ta, uint8_t *tb, uint64_t *ret_b) { (void)ta; (void)tb; *ret_b = nondet_u64(); return nondet_u64(); }
uint32_t ascon_trng_generate_32__pair(uint8_t *ta, uint8_t *tb, uint32_t *ret_b) { (void)ta; (void)tb; *ret_b = nondet_u32(); return nondet_u32(); }
uint32_t ascon_trng_init__pair(uint8_t *ta, uint8_t *tb, uint32_t *ret_b) { uint32_t r = (uint32_t)(nondet_int() != 0); (void)ta; (void)tb; *ret_b = r; return r; }
void ascon_trng_free__pair(uint8_t *ta, uint8_t *tb) { (void)ta; (void)tb; }
/* the system source: bytes are secret, the health flag is public */
uint32_t ascon_trng_generate__pair(uint8_t *oa, uint64_t la, uint8_t *ob, uint64_t lb, uint32_t *ret_b)
{
    uint64_t i; uint32_t r = (uint32_t)(nondet_int() != 0);
    CHECK(la == lb, "secret-independent seed length"); ASSUME(la == lb && la <= 64);
    for (i = 0; i < la; ++i) { oa[i] = nondet_uchar(); ob[i] = nondet_uchar(); }
    *ret_b = r; return r;
}
