/* C01 / C02 / C14 / C07: plain AEAD (ASCON-128, -128a, -80pq) against the ASCON v1.2 model.
 *
 * Shape (concrete per query): ALG 0/1/2, ADLEN, MLEN,
 *   MODE 0 one-shot encrypt
 *        1 one-shot decrypt (tag symbolic and unconstrained: accept iff tag == model tag)
 *        2 incremental encrypt: init, start, encrypt_block(SPLIT), encrypt_block(rest), finalize
 *        3 incremental decrypt, likewise
 *        4 one-shot decrypt with clen = SHORT < 16 (must return -1 and write nothing)
 *   INPLACE 1: output buffer is the input buffer (C07 aliasing)
 * Data (key, nonce, AD, message, tag, prior buffer contents): symbolic.
 * Buffers are exactly sized so that any stray write is a bounds violation (C12).
 */
#include "vh.h"
#include "spec.h"
#include "lockstep.h"
#include <ascon/aead.h>

#if ALG == 0
#define KLEN 16
#define FN(x) ascon128_aead_##x
#define ST ascon128_state_t
#elif ALG == 1
#define KLEN 16
#define FN(x) ascon128a_aead_##x
#define ST ascon128a_state_t
#else
#define KLEN 20
#define FN(x) ascon80pq_aead_##x
#define ST ascon80pq_state_t
#endif
#ifndef SPLIT
#define SPLIT 0
#endif
#ifndef INPLACE
#define INPLACE 0
#endif
#define ADP (ADLEN > 0 ? ad : (const unsigned char *)0)

void harness(void)
{
    SYM_BYTES(key, KLEN);
    SYM_BYTES(npub, 16);
    SYM_BYTES(ad, ADLEN);
    SYM_BYTES(msg, MLEN);       /* plaintext (encrypt) or ciphertext body (decrypt) */
    SYM_BYTES(tagin, 16);       /* decrypt: the tag presented */
    unsigned char exp[MLEN > 0 ? MLEN : 1], exptag[16];
    size_t outlen = nondet_size();
    size_t outlen0 = outlen;
    int ok;

#if MODE == 0
    {
        unsigned char c[MLEN + 16];
        vh_sym_bytes(c, MLEN + 16);
#if INPLACE
        memcpy(c, msg, MLEN);
        FN(encrypt)(c, &outlen, c, MLEN, ADP, ADLEN, npub, key);
#else
        FN(encrypt)(c, &outlen, msg, MLEN, ADP, ADLEN, npub, key);
#endif
        spec_aead_encrypt(ALG, exp, exptag, msg, MLEN, ad, ADLEN, npub, key);
        CHECK(outlen == MLEN + 16, "reported ciphertext length is plaintext length + 16");
        ok = vh_eq_bytes(c, exp, MLEN);
        CHECK(ok, "ciphertext equals specification");
        ok = vh_eq_bytes(c + MLEN, exptag, 16);
        CHECK(ok, "tag equals specification");
    }
#elif MODE == 1
    {
        unsigned char c[MLEN + 16], m[MLEN > 0 ? MLEN : 1], m0[MLEN > 0 ? MLEN : 1];
        int rc, tagok, zero = 1;
        unsigned i;
        memcpy(c, msg, MLEN);
        memcpy(c + MLEN, tagin, 16);
        vh_sym_bytes(m, MLEN);
        memcpy(m0, m, MLEN);
#if INPLACE
        rc = FN(decrypt)(c, &outlen, c, MLEN + 16, ADP, ADLEN, npub, key);
        memcpy(m, c, MLEN);
#else
        rc = FN(decrypt)(m, &outlen, c, MLEN + 16, ADP, ADLEN, npub, key);
#endif
        spec_aead_decrypt(ALG, exp, exptag, msg, MLEN, ad, ADLEN, npub, key);
        tagok = vh_eq_bytes(tagin, exptag, 16);
        CHECK((rc == 0) == (tagok != 0), "decrypt succeeds exactly when the tag is the specification's tag");
        CHECK(rc == 0 || rc < 0, "result is zero or negative");
        CHECK(outlen == MLEN, "reported plaintext length is ciphertext length - 16");
        ok = vh_eq_bytes(m, exp, MLEN);
        CHECK(rc != 0 || ok, "on success the plaintext equals the specification");
        for (i = 0; i < MLEN; ++i) zero &= (m[i] == 0);
        CHECK(rc == 0 || zero, "on failure every plaintext byte is zero");
        (void)m0;
    }
#elif MODE == 2
    {
        ST st;
        unsigned char c[MLEN > 0 ? MLEN : 1], tag[16];
        unsigned char nonce_next[16];
        vh_sym_bytes(c, MLEN);
        vh_sym_bytes(tag, 16);
        FN(init)(&st, npub, key);
        FN(start)(&st, ADP, ADLEN);
#if INPLACE
        memcpy(c, msg, MLEN);
        FN(encrypt_block)(&st, c, c, SPLIT);
        FN(encrypt_block)(&st, c + SPLIT, c + SPLIT, MLEN - SPLIT);
#else
        FN(encrypt_block)(&st, msg, c, SPLIT);
        FN(encrypt_block)(&st, msg + SPLIT, c + SPLIT, MLEN - SPLIT);
#endif
        FN(encrypt_finalize)(&st, tag);
        spec_aead_encrypt(ALG, exp, exptag, msg, MLEN, ad, ADLEN, npub, key);
        ok = vh_eq_bytes(c, exp, MLEN);
        CHECK(ok, "incremental ciphertext equals specification");
        ok = vh_eq_bytes(tag, exptag, 16);
        CHECK(ok, "incremental tag equals specification");
        /* C14: the stored nonce advanced by exactly one (128-bit big-endian) */
        {
            unsigned i; unsigned carry = 1;
            for (i = 16; i > 0; --i) { carry += npub[i - 1]; nonce_next[i - 1] = (unsigned char)carry; carry >>= 8; }
            ok = vh_eq_bytes(st.nonce, nonce_next, 16);
            CHECK(ok, "stored nonce is N+1 after start");
        }
        (void)outlen0;
    }
#elif MODE == 3
    {
        ST st;
        unsigned char m[MLEN > 0 ? MLEN : 1];
        int rc, tagok;
        vh_sym_bytes(m, MLEN);
        FN(init)(&st, npub, key);
        FN(start)(&st, ADP, ADLEN);
#if INPLACE
        memcpy(m, msg, MLEN);
        FN(decrypt_block)(&st, m, m, SPLIT);
        FN(decrypt_block)(&st, m + SPLIT, m + SPLIT, MLEN - SPLIT);
#else
        FN(decrypt_block)(&st, msg, m, SPLIT);
        FN(decrypt_block)(&st, msg + SPLIT, m + SPLIT, MLEN - SPLIT);
#endif
        rc = FN(decrypt_finalize)(&st, tagin);
        spec_aead_decrypt(ALG, exp, exptag, msg, MLEN, ad, ADLEN, npub, key);
        tagok = vh_eq_bytes(tagin, exptag, 16);
        CHECK((rc == 0) == (tagok != 0), "incremental decrypt succeeds exactly when the tag is the specification's tag");
        CHECK(rc == 0 || rc < 0, "result is zero or negative");
        ok = vh_eq_bytes(m, exp, MLEN);
        CHECK(ok, "incremental plaintext equals specification");
    }
#elif MODE == 4
    {
        /* clen = SHORT < 16: must be refused, nothing written */
        unsigned char c[SHORT > 0 ? SHORT : 1], m[1], m0;
        int rc;
        vh_sym_bytes(c, SHORT);
        m[0] = nondet_uchar(); m0 = m[0];
        rc = FN(decrypt)(m, &outlen, c, SHORT, ADP, ADLEN, npub, key);
        CHECK(rc < 0, "input shorter than the tag is refused with a negative result");
        CHECK(m[0] == m0 && outlen == outlen0, "refusal writes neither plaintext nor length");
        CHECK(ls_n_impl == 0, "refusal happens before any processing");
    }
#endif
    ls_done();
    WITNESS();
}
