/* C18: AVR5 masked permutations ascon_x2_permute / ascon_x3_permute (src/masking/ascon-x{2,3}-asm-avr5.S).
 * The assembly text is symbolically executed by enc/asm/avr5.py into straight-line C (asm_gen.h: f(preserve, state)),
 * starting at round ROUND with the loop's back edge taken ITERS-1 times (per-round extraction; the full run from round
 * 12-k doubles in solver cost per round).  Layout (the AVR files clamp the maximum share count to 3): word i, share j at
 * byte offset (3*i + j)*8, each share a big-endian 64-bit string, shares combined by XOR.
 * Obligation: XOR of the N output shares of every word == ITERS specification rounds (ROUND, ROUND+1, ...) applied to the
 * XOR of the N input shares, for all share values and all values of the preserved randomness; shares the function does
 * not own (share index >= N) are unchanged. */
#include "vh.h"
#include "spec.h"
#include "asm_gen.h"
#define MX 3
#ifndef ITERS
#define ITERS 1
#endif

static uint64_t be64(const uint8_t *p) { uint64_t v = 0; int k; for (k = 0; k < 8; ++k) v = (v << 8) | p[k]; return v; }

void harness(void)
{
    uint8_t state[5 * MX * 8], state0[5 * MX * 8], preserve[(N - 1) * 8];
    uint64_t x[5], y[5];
    unsigned i, j, r;
    int ok = 1, untouched = 1;
    for (i = 0; i < sizeof(state); ++i) { state[i] = nondet_uchar(); state0[i] = state[i]; }
    for (i = 0; i < sizeof(preserve); ++i) preserve[i] = nondet_uchar();
    for (i = 0; i < 5; ++i) { x[i] = 0; for (j = 0; j < N; ++j) x[i] ^= be64(state + (MX * i + j) * 8); }
    f(preserve, state);
    for (r = 0; r < ITERS; ++r) spec_round(x, ROUND + r);
    for (i = 0; i < 5; ++i) { y[i] = 0; for (j = 0; j < N; ++j) y[i] ^= be64(state + (MX * i + j) * 8); ok &= (y[i] == x[i]); }
    CHECK(ok, "the unmasked output equals the specification round(s) applied to the unmasked input");
    for (i = 0; i < 5; ++i) for (j = N; j < MX; ++j) for (r = 0; r < 8; ++r) untouched &= (state[(MX * i + j) * 8 + r] == state0[(MX * i + j) * 8 + r]);
    CHECK(untouched, "shares beyond the function's share count are left unchanged");
    WITNESS();
}
