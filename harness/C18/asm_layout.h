/* state layout models of the assembly back ends (same text as enc/asm/validate.py) */
#ifndef ASM_LAYOUT_H
#define ASM_LAYOUT_H

#include <stdint.h>
#include <string.h>
static void to_canon(const uint8_t *s, uint64_t x[5]) {
  unsigned i, j;
#if defined(LAYOUT_SLICED64_LE)
  for (i = 0; i < 5; ++i) { uint64_t v = 0; for (j = 0; j < 8; ++j) v |= (uint64_t)s[8*i+j] << (8*j); x[i] = v; }
#elif defined(LAYOUT_SLICED32) || defined(LAYOUT_SLICED32_BE)
  for (i = 0; i < 5; ++i) { uint32_t e = 0, o = 0; uint64_t v = 0;
    for (j = 0; j < 4; ++j) {
#if defined(LAYOUT_SLICED32_BE)
      e |= (uint32_t)s[8*i+j] << (24-8*j); o |= (uint32_t)s[8*i+4+j] << (24-8*j);
#else
      e |= (uint32_t)s[8*i+j] << (8*j); o |= (uint32_t)s[8*i+4+j] << (8*j);
#endif
    }
    for (j = 0; j < 32; ++j) { v |= (uint64_t)((e >> j) & 1) << (2*j); v |= (uint64_t)((o >> j) & 1) << (2*j+1); }
    x[i] = v; }
#else
  for (i = 0; i < 5; ++i) { uint64_t v = 0; for (j = 0; j < 8; ++j) v = (v << 8) | s[8*i+j]; x[i] = v; }
#endif
}
static void from_canon(uint8_t *s, const uint64_t x[5]) {
  unsigned i, j;
#if defined(LAYOUT_SLICED64_LE)
  for (i = 0; i < 5; ++i) for (j = 0; j < 8; ++j) s[8*i+j] = (uint8_t)(x[i] >> (8*j));
#elif defined(LAYOUT_SLICED32) || defined(LAYOUT_SLICED32_BE)
  for (i = 0; i < 5; ++i) { uint32_t e = 0, o = 0;
    for (j = 0; j < 32; ++j) { e |= (uint32_t)((x[i] >> (2*j)) & 1) << j; o |= (uint32_t)((x[i] >> (2*j+1)) & 1) << j; }
    for (j = 0; j < 4; ++j) {
#if defined(LAYOUT_SLICED32_BE)
      s[8*i+j] = (uint8_t)(e >> (24-8*j)); s[8*i+4+j] = (uint8_t)(o >> (24-8*j));
#else
      s[8*i+j] = (uint8_t)(e >> (8*j)); s[8*i+4+j] = (uint8_t)(o >> (8*j));
#endif
    } }
#else
  for (i = 0; i < 5; ++i) for (j = 0; j < 8; ++j) s[8*i+j] = (uint8_t)(x[i] >> (56-8*j));
#endif
}

#endif
