/* C18: the checked-in assembly permutation (symbolically executed by enc/asm/<isa>.py into straight-line C,
 * included below as asm_gen.h) equals the specification permutation for ALL 2^320 states, for the concrete
 * start round ROUND, under the file's documented state layout (LAYOUT_* macro). */
#include "vh.h"
#include "spec.h"
void spec_P(uint64_t x[5], unsigned r) { spec_permute(x, r); }
#include "asm_layout.h"
#include "asm_gen.h"       /* defines static void asm_fn(uint8_t *state) */
void harness(void)
{
    uint64_t x[5], y[5];
    uint8_t s[40] __attribute__((aligned(8)));
    unsigned i; int ok = 1;
    for (i = 0; i < 5; ++i) x[i] = nondet_u64();
    from_canon(s, x);
    asm_fn(s);
    to_canon(s, y);
    spec_permute(x, ROUND);
    for (i = 0; i < 5; ++i) ok &= (x[i] == y[i]);
    CHECK(ok, "assembly equals the specification permutation");
    WITNESS();
}
