/* C03: ASCON-HASH/HASHA/XOF/XOFA, fixed-length and customised XOF against the model.
 * FAM 0 = XOF family (hash, xof), 1 = XOFA family (hasha, xofa).
 * MODE 0 one-shot hash           ascon_hash / ascon_hasha                (MLEN)
 *      1 one-shot xof            ascon_xof / ascon_xofa (32 bytes)       (MLEN)
 *      2 incremental xof         init, absorb, squeeze(OUTLEN)           (MLEN, OUTLEN)
 *      3 fixed-length xof        init_fixed(FIXLEN), absorb, squeeze(OUTLEN); FIXLEN concrete
 *      4 custom xof              init_custom(name NAMELEN chars, custom CLEN bytes, FIXLEN), absorb, squeeze
 *      5 incremental hash        hash_init, update, finalize
 *      6 declared length symbolic: init_fixed / init_custom with a fully symbolic 64-bit outlen:
 *        the first permutation input carries IV | 8*outlen, clamped at 2^29 (precomputed-IV
 *        branches 0 and 32 excluded: they are covered concretely by MODE 3)
 */
#include "vh.h"
#include "spec.h"
#include "lockstep.h"
#include <ascon/hash.h>
#include <ascon/xof.h>

#if FAM == 0
#define X(n) ascon_xof_##n
#define H(n) ascon_hash_##n
#define XS ascon_xof_state_t
#define HS ascon_hash_state_t
#define ONESHOT_HASH ascon_hash
#define ONESHOT_XOF ascon_xof
#else
#define X(n) ascon_xofa_##n
#define H(n) ascon_hasha_##n
#define XS ascon_xofa_state_t
#define HS ascon_hasha_state_t
#define ONESHOT_HASH ascon_hasha
#define ONESHOT_XOF ascon_xofa
#endif
#ifndef OUTLEN
#define OUTLEN 32
#endif
#ifndef FIXLEN
#define FIXLEN 0
#endif
#ifndef NAMELEN
#define NAMELEN 0
#endif
#ifndef CLEN
#define CLEN 0
#endif

void harness(void)
{
    SYM_BYTES(msg, MLEN);
    SYM_BYTES(custom, CLEN);
    char name[NAMELEN + 1];
    unsigned char out[OUTLEN > 0 ? OUTLEN : 1], exp[OUTLEN > 0 ? OUTLEN : 1];
    spec_sponge_t s;
    unsigned i; int ok;
    for (i = 0; i < NAMELEN; ++i) { name[i] = (char)nondet_uchar(); ASSUME(name[i] != 0); }
    name[NAMELEN] = 0;
    vh_sym_bytes(out, OUTLEN);
#if MODE == 0
    ONESHOT_HASH(out, MLEN > 0 ? msg : (const unsigned char *)0, MLEN);
    spec_hash(FAM, exp, msg, MLEN);
#elif MODE == 1
    ONESHOT_XOF(out, MLEN > 0 ? msg : (const unsigned char *)0, MLEN);
    spec_xof(FAM, exp, 32, msg, MLEN);
#elif MODE == 2
    { XS st; X(init)(&st); X(absorb)(&st, msg, MLEN); X(squeeze)(&st, out, OUTLEN); X(free)(&st); }
    spec_xof(FAM, exp, OUTLEN, msg, MLEN);
#elif MODE == 3
    { XS st; X(init_fixed)(&st, FIXLEN); X(absorb)(&st, msg, MLEN); X(squeeze)(&st, out, OUTLEN); X(free)(&st); }
    /* declared lengths 0 and >= 2^29 mean plain XOF, 32 means HASH: both precomputed in the code */
    {
        unsigned long fl = FIXLEN;
        uint32_t bits = fl >= (1UL << 29) ? 0 : (uint32_t)(fl * 8);
        spec_xof_init(&s, FAM, bits, 0, !(bits == 0 || bits == 256));
        spec_xof_absorb(&s, msg, MLEN);
        spec_xof_squeeze(&s, exp, OUTLEN);
    }
#elif MODE == 4
    {
        XS st; uint8_t blk[32];
        unsigned long fl = FIXLEN;
        uint32_t bits = fl >= (1UL << 29) ? 0 : (uint32_t)(fl * 8);
        X(init_custom)(&st, NAMELEN > 0 ? name : (const char *)0, CLEN > 0 ? custom : (const unsigned char *)0, CLEN, FIXLEN);
        X(absorb)(&st, msg, MLEN); X(squeeze)(&st, out, OUTLEN); X(free)(&st);
        spec_cxof_name_block(FAM, blk, name, NAMELEN);
        spec_xof_init(&s, FAM, bits, blk, 1);
        spec_xof_custom(&s, custom, CLEN);
        spec_xof_absorb(&s, msg, MLEN);
        spec_xof_squeeze(&s, exp, OUTLEN);
    }
#elif MODE == 5
    { HS st; H(init)(&st); H(update)(&st, msg, MLEN); H(finalize)(&st, out); H(free)(&st); }
    spec_hash(FAM, exp, msg, MLEN);
#elif MODE == 6
    {
        XS st; uint8_t blk[32];
        size_t fl = nondet_size();
        uint32_t bits = fl >= ((size_t)1 << 29) ? 0 : (uint32_t)(fl * 8);
#if NAMELEN == 0 && CLEN == 0
        ASSUME(fl != 0 && fl != 32 && fl < ((size_t)1 << 29));     /* the branches that run the permutation */
        X(init_fixed)(&st, fl);
        spec_xof_init(&s, FAM, bits, 0, 1);
#else
        X(init_custom)(&st, name, custom, CLEN, fl);
        spec_cxof_name_block(FAM, blk, name, NAMELEN);
        spec_xof_init(&s, FAM, bits, blk, 1);
        spec_xof_custom(&s, custom, CLEN);
#endif
        X(absorb)(&st, msg, MLEN); X(squeeze)(&st, out, OUTLEN); X(free)(&st);
        spec_xof_absorb(&s, msg, MLEN);
        spec_xof_squeeze(&s, exp, OUTLEN);
        (void)blk;
    }
#endif
    ok = vh_eq_bytes(out, exp, OUTLEN);
    CHECK(ok, "digest equals specification");
    /* XOFA squeezes eagerly: after a full block it permutes once more than the model needs */
    ls_done_allow(1);
    WITNESS();
}
