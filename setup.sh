#!/bin/sh
# Offline setup: nothing to download or build ahead of time; every check rebuilds
# its goto binaries from /repo's working tree.  We only verify the tools exist and
# that the engine canaries behave (DESIGN 2.6).
set -e
cd "$(dirname "$0")"
for t in cbmc goto-cc goto-instrument gcc clang-14 python3; do command -v $t >/dev/null || { echo "missing tool $t"; exit 1; }; done
python3 lib/manifest_gen.py >/dev/null
python3 lib/canary.py
