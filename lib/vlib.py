"""Engine shared by all checks: builds goto binaries from /repo's working tree,
runs CBMC (cadical) per query in a job pool, interprets per-property results,
replays counterexamples natively, writes evidence.

Verdict rules (DESIGN 2.1, 2.5):
  PASS          every property SUCCESS and the WITNESS assertion FAILURE (reachable)
  FAIL          some non-witness property FAILURE  -> replayed natively before reporting
  VACUOUS       witness not violated (harness never reaches its end)  -> broken check
  INCONCLUSIVE  time-out, out-of-memory, tool error, unparsable output
"""
import concurrent.futures as cf
import json
import os
import re
import resource
import shutil
import subprocess
import sys
import tempfile
import time

VERIF = os.path.dirname(os.path.dirname(os.path.abspath(__file__)))
REPO = os.environ.get("VERIF_REPO", "/repo")
GUARD = "ASCON_SUITE_VERIF"

HOST_CONFIG = """#define HAVE_STRINGS_H
#define HAVE_EXPLICIT_BZERO
#define HAVE_SYS_RANDOM_H
#define HAVE_SYS_SYSCALL_H
#define HAVE_TIME_H
#define HAVE_SYS_TIME_H
#define HAVE_IMMINTRIN_H
#define HAVE_GETRANDOM
#define HAVE_GETENTROPY
#define HAVE_TIME
#define HAVE_GETTIMEOFDAY
#define HAVE_CLOCK_GETTIME
#define HAVE_GETOPT_H
#define HAVE_GETOPT
#define HAVE_ISATTY
#define HAVE_UNISTD_H
#define HAVE_FCNTL_H
#define HAVE_OPEN
#define HAVE_GETPASS
#define HAVE_THREAD_KEYWORD
"""

BACKENDS = {
    # name: (defines, permutation source, SnP helper source)
    "c64": (["-DASCON_FORCE_C64"], "src/core/ascon-c64.c", "src/core/ascon-sliced64.c"),
    "c32": (["-DASCON_FORCE_C32"], "src/core/ascon-c32.c", "src/core/ascon-sliced32.c"),
    "direct": (["-DASCON_FORCE_DIRECT_XOR"], "src/core/ascon-c64.c", "src/core/ascon-direct-xor.c"),
    "generic": (["-DASCON_FORCE_GENERIC"], "src/core/ascon-c64.c", "src/core/ascon-direct-xor.c"),
    "generic_check": (["-DASCON_FORCE_GENERIC", "-DASCON_CHECK_ACQUIRE_RELEASE"],
                      "src/core/ascon-c64.c", "src/core/ascon-direct-xor.c"),
    # default selection on this host: x86-64 assembly; the permutation source is
    # produced by the assembly executor (enc/asm) -- see asm_c_source()
    "x86asm": ([], None, "src/core/ascon-sliced64.c"),
}
DEFAULT_SHARES = (4, 2, 4)

CBMC_BASE = ["--sat-solver", "cadical", "--unwinding-assertions", "--drop-unused-functions",
             "--pointer-overflow-check", "--undefined-shift-check", "--signed-overflow-check",
             "--object-bits", "12", "--verbosity", "8"] + \
    (["--max-field-sensitivity-array-size", os.environ.get("VERIF_FSA", "256")] if os.environ.get("VERIF_FSA", "256") != "0" else [])
# arrays up to this many elements are kept element-wise during symbolic execution (CBMC's default is 64): hash/HMAC/ISAP
# objects of 65..256 bytes otherwise turn every store into an update of the whole array and symbolic execution crawls.
# --bounds-check and --pointer-check are on by default in CBMC 6.


class Query:
    def __init__(self, name, harness, repo_srcs=(), extra_srcs=(), defs=None, backend="c64",
                 shares=DEFAULT_SHARES, form=None, unwind=2200, unwindset=(), flags=(),
                 timeout=600, mem_gb=12, symbolic=True, shape=None, entry="harness",
                 with_backend=True, with_spec=True, gen_srcs=(), includes=(), no_witness=False,
                 partial_loops=False, cc_flags=(), nondet_static=False, group=None, partial_loop=None, cost=None):
        self.name = name
        self.harness = harness
        self.repo_srcs = list(repo_srcs)
        self.extra_srcs = list(extra_srcs)
        self.gen_srcs = list(gen_srcs)      # callables(run_dir, query) -> path of generated C
        self.defs = dict(defs or {})
        self.backend = backend
        self.shares = tuple(shares)
        self.form = form
        self.unwind = unwind
        self.unwindset = list(unwindset)
        self.flags = list(flags)
        self.timeout = timeout
        self.mem_gb = mem_gb
        self.symbolic = symbolic
        self.shape = shape or {}
        self.entry = entry
        self.with_backend = with_backend
        self.with_spec = with_spec
        self.includes = list(includes)
        self.no_witness = no_witness
        self.partial_loops = partial_loops
        self.cc_flags = list(cc_flags)
        self.nondet_static = nondet_static
        self.group = group or name.split(":")[0]
        self.partial_loop = partial_loop   # dict(src=repo-relative file, pattern=source text of the loop head, iters=n)
        self.cost = cost if cost is not None else timeout
        self.asm_parts = []

    def descr(self):
        return {"query": self.name, "harness": self.harness, "backend": self.backend,
                "shares": list(self.shares), "form": self.form, "shape": self.shape}


class Result:
    def __init__(self, q):
        self.q = q
        self.status = "INCONCLUSIVE"
        self.failed = []        # descriptions of failed properties (non-witness)
        self.nprops = 0
        self.wall = 0.0
        self.solver_s = 0.0
        self.rss_mb = 0
        self.detail = ""
        self.cmd = ""
        self.replay = None      # dict once replayed
        self.workdir = None


def write_config(dirpath, shares):
    os.makedirs(dirpath, exist_ok=True)
    with open(os.path.join(dirpath, "config.h"), "w") as f:
        f.write(HOST_CONFIG)
        f.write("#define ASCON_MASKED_KEY_SHARES %d\n#define ASCON_MASKED_DATA_SHARES %d\n"
                "#define ASCON_MASKED_MAX_SHARES %d\n" % shares)
    # version.h is produced by cmake from src/ascon/version.h.in and the project() version
    try:
        tmpl = open(os.path.join(REPO, "src/ascon/version.h.in")).read()
        m = re.search(r"project\(\s*AsconSuite\s+VERSION\s+(\d+)\.(\d+)\.(\d+)", open(os.path.join(REPO, "CMakeLists.txt")).read())
        if m:
            for k, v in zip(("MAJOR", "MINOR", "PATCH"), m.groups()):
                tmpl = tmpl.replace("@AsconSuite_VERSION_%s@" % k, v)
        with open(os.path.join(dirpath, "version.h"), "w") as f:
            f.write(tmpl)
    except OSError:
        pass


import threading
_gen_lock = threading.Lock()


def sources_for(q, run_dir, native=False):
    """Return (list of source paths, list of -D/-I flags) for query q."""
    with _gen_lock:
        return _sources_for(q, run_dir, native)


def _sources_for(q, run_dir, native=False):
    bdefs, perm_src, snp_src = BACKENDS[q.backend]
    cfgdir = os.path.join(run_dir, "cfg-%d-%d-%d" % q.shares)
    if not os.path.exists(os.path.join(cfgdir, "config.h")):
        write_config(cfgdir, q.shares)
    flags = ["-DHAVE_CONFIG_H", "-D" + GUARD, "-I", cfgdir, "-I", os.path.join(REPO, "src"),
             "-I", os.path.join(VERIF, "harness/common"), "-I", os.path.join(VERIF, "spec")]
    flags += bdefs
    form = q.form
    if form:
        flags.append("-DFORM_" + form)
    if form == "T":
        n = int(q.defs["LS_MAX"])
        lsdir = os.path.join(run_dir, "ls-%d" % n)
        if not os.path.exists(os.path.join(lsdir, "ls_records.h")):
            os.makedirs(lsdir, exist_ok=True)
            with open(os.path.join(lsdir, "ls_records.h.tmp%d" % os.getpid()), "w") as f:
                f.write("static ls_rec_t %s;\n" % ", ".join("ls_r%d" % i for i in range(n)))
                f.write("static ls_rec_t *ls_get(unsigned k)\n{\n    switch (k) {\n")
                for i in range(n):
                    f.write("    case %d: return &ls_r%d;\n" % (i, i))
                f.write("    default: return &ls_r0;\n    }\n}\n")
            os.replace(os.path.join(lsdir, "ls_records.h.tmp%d" % os.getpid()), os.path.join(lsdir, "ls_records.h"))
        flags += ["-I", lsdir]
    for k, v in q.defs.items():
        flags.append("-D%s=%s" % (k, v) if v is not None else "-D%s" % k)
    flags += q.cc_flags
    srcs = [os.path.join(VERIF, q.harness)]
    srcs += [os.path.join(REPO, s) for s in q.repo_srcs]
    srcs += [os.path.join(VERIF, s) for s in q.extra_srcs]
    if q.with_spec:
        srcs.append(os.path.join(VERIF, "spec/spec.c"))
    if q.with_backend:
        srcs.append(os.path.join(REPO, snp_src))
        srcs.append(os.path.join(REPO, "src/core/ascon-clean.c"))
        if form != "T":
            if perm_src is None:
                from . import asmgen
                srcs.append(asmgen.asm_c_source(run_dir, "x86-64", "core"))
            else:
                srcs.append(os.path.join(REPO, perm_src))
        elif perm_src is None:
            from . import asmgen
            srcs.append(asmgen.asm_c_source(run_dir, "x86-64", "free_only"))
    if form:
        srcs.append(os.path.join(VERIF, "harness/common/lockstep.c"))
    if not native:
        srcs.append(os.path.join(VERIF, "harness/common/libc_stubs.c"))
    for g in q.gen_srcs:
        srcs.append(g(run_dir, q))
    for inc in q.includes:       # (after gen_srcs: a generator may add its output directory)
        flags += ["-I", inc if os.path.isabs(inc) else os.path.join(REPO, inc)]
    for part in getattr(q, "asm_parts", []):
        from . import asmgen
        p = asmgen.asm_part_source(run_dir, q, part)
        srcs += p if isinstance(p, list) else [p]
    # de-duplicate, keep order
    seen = set()
    out = []
    for s in srcs:
        if s not in seen:
            seen.add(s)
            out.append(s)
    return out, flags


def _limit(mem_gb):
    def f():
        lim = int(mem_gb * (1 << 30))
        resource.setrlimit(resource.RLIMIT_AS, (lim, lim))
        os.setsid()
    return f


def run_cmd(cmd, timeout, mem_gb=None, cwd=None):
    t0 = time.time()
    try:
        p = subprocess.Popen(cmd, stdout=subprocess.PIPE, stderr=subprocess.STDOUT, cwd=cwd,
                             preexec_fn=_limit(mem_gb) if mem_gb else os.setsid, text=True, errors="replace")
        try:
            out, _ = p.communicate(timeout=timeout)
            rc = p.returncode
        except subprocess.TimeoutExpired:
            try:
                os.killpg(p.pid, 9)
            except Exception:
                pass
            out, _ = p.communicate()
            rc = "timeout"
    except Exception as e:  # pragma: no cover
        out, rc = str(e), "error"
    return rc, out, time.time() - t0


PROP_RE = re.compile(r"^\[(\S+)\] (?:line (\d+) )?(.*): (SUCCESS|FAILURE|UNKNOWN|ERROR)$", re.M)


def compile_goto(q, run_dir, wdir, extra_defs=()):
    srcs, flags = sources_for(q, run_dir)
    gb = os.path.join(wdir, "h.gb")
    cmd = ["goto-cc", "-DVERIF_CBMC"] + flags + list(extra_defs) + srcs + ["-o", gb]
    rc, out, _ = run_cmd(cmd, 300)
    if rc != 0:
        return None, cmd, out
    if q.nondet_static:
        gb2 = os.path.join(wdir, "h-ns.gb")
        rc, out, _ = run_cmd(["goto-instrument", "--nondet-static", gb, gb2], 300)
        if rc != 0:
            return None, cmd, out
        gb = gb2
    return gb, cmd, out


def find_loop(gb, pl):
    """Identify the CBMC loop id of the loop whose head is the source line containing pl['pattern'] in pl['src']."""
    path = os.path.join(REPO, pl["src"])
    lines = [i + 1 for i, l in enumerate(open(path)) if pl["pattern"] in l]
    if len(lines) != 1:
        return None
    rc, out, _ = run_cmd(["cbmc", gb, "--show-loops"], 120)
    cur = None
    for l in out.splitlines():
        m = re.match(r"^Loop (\S+):", l)
        if m:
            cur = m.group(1)
            continue
        m = re.match(r"^\s*file (\S+) line (\d+) function", l)
        if m and cur and m.group(1).endswith(pl["src"]) and int(m.group(2)) == lines[0]:
            return cur
    return None


def cbmc_cmd(q, gb, trace=False):
    base = list(CBMC_BASE)
    if "--max-field-sensitivity-array-size" in q.flags and "--max-field-sensitivity-array-size" in base:
        k = base.index("--max-field-sensitivity-array-size")
        del base[k:k + 2]
    cmd = ["cbmc", gb, "--function", q.entry] + base + q.flags
    if q.unwindset:
        cmd += ["--unwindset", ",".join(q.unwindset)]
    if q.unwind is not None:
        cmd += ["--unwind", str(q.unwind)]
    if q.partial_loops:
        cmd += ["--partial-loops", "--no-unwinding-assertions"]
        cmd.remove("--unwinding-assertions")
    if trace:
        # slicing would remove the recorded input draws from the trace
        cmd = [c for c in cmd if c != "--slice-formula"]
        cmd += ["--trace", "--stop-on-fail"]
    return cmd


def run_query(q, run_dir):
    try:
        return _run_query(q, run_dir)
    except Exception:
        import traceback
        r = Result(q)
        r.detail = "engine exception: " + traceback.format_exc()[-1500:]
        return r


def _run_query(q, run_dir):
    r = Result(q)
    wdir = tempfile.mkdtemp(prefix="q-", dir=run_dir)
    r.workdir = wdir
    with open(os.path.join(wdir, "query.txt"), "w") as f:
        f.write(q.name + "\n")
    t0 = time.time()
    gb, ccmd, cout = compile_goto(q, run_dir, wdir, ["-DNOWITNESS"] if q.no_witness else [])
    if gb is None:
        r.status = "INCONCLUSIVE"
        r.detail = "goto-cc failed:\n" + cout[-3000:]
        r.cmd = " ".join(ccmd)
        r.wall = time.time() - t0
        return r
    if q.partial_loop:
        lid = find_loop(gb, q.partial_loop)
        if lid is None:
            r.detail = "partial-loop: loop `%s` of %s not found in the goto program" % (q.partial_loop["pattern"], q.partial_loop["src"])
            return r
        q.unwindset = [u for u in q.unwindset if not u.startswith(lid + ":")] + ["%s:%d" % (lid, q.partial_loop.get("iters", 1))]
        q.partial_loops = True
    cmd = cbmc_cmd(q, gb)
    r.cmd = " ".join(cmd)
    rc, out, wall = run_cmd(["/usr/bin/time", "-f", "MAXRSS %M"] + cmd, q.timeout, q.mem_gb)
    r.wall = time.time() - t0
    with open(os.path.join(wdir, "cbmc.log"), "w") as f:
        f.write(out)
    m = re.search(r"MAXRSS (\d+)", out)
    if m:
        r.rss_mb = int(m.group(1)) // 1024
    r.solver_s = sum(float(x) for x in re.findall(r"Runtime (?:Solver|decision procedure): ([0-9.]+)s", out))
    if rc == "timeout":
        r.detail = "time-out after %ds" % q.timeout
        return r
    props = PROP_RE.findall(out)
    r.nprops = len(props)
    if "VERIFICATION SUCCESSFUL" not in out and "VERIFICATION FAILED" not in out:
        r.detail = "no verdict (rc=%s): %s" % (rc, out[-1500:])
        return r
    undecided = any(st in ("UNKNOWN", "ERROR") for _, _, _, st in props)
    # obligations whose text starts with MUSTFAIL are existence claims: the solver must find a witness
    mustfail_ok = [(pid, line, desc) for pid, line, desc, st in props if desc.startswith("MUSTFAIL") and st == "FAILURE"]
    mustfail_bad = [(pid, line, desc) for pid, line, desc, st in props if desc.startswith("MUSTFAIL") and st == "SUCCESS"]
    props = [p for p in props if not p[2].startswith("MUSTFAIL")]
    failed = [(pid, line, desc) for pid, line, desc, st in props if st == "FAILURE"] + mustfail_bad
    witness = [f for f in failed if f[2] == "WITNESS"]
    real = [f for f in failed if f[2] != "WITNESS"]
    r.failed = ["%s line %s: %s" % f for f in real]
    if real:
        r.status = "FAIL"          # a found counterexample stands even if other obligations were left undecided
    elif undecided:
        r.detail = "property with UNKNOWN/ERROR status"
        return r
    elif q.no_witness:
        r.status = "PASS"
    elif not witness:
        r.status = "VACUOUS"
        r.detail = "witness assertion not violated: harness end unreachable"
    else:
        r.status = "PASS"
    return r


# ----------------------------------------------------------------------------
# counterexample extraction and native replay

NONDET_RE = re.compile(r"^\s*(vh_nd)=.*\(([01 ]+)\)\s*$")


def extract_trace(q, run_dir, wdir):
    """Re-run the failing query with --trace (witness off) and return the list of
    nondet values in execution order plus the violated property text."""
    gb, ccmd, cout = compile_goto(q, run_dir, wdir, ["-DNOWITNESS"])
    if gb is None:
        return None, "goto-cc failed"
    cmd = cbmc_cmd(q, gb, trace=True)
    rc, out, _ = run_cmd(cmd, q.timeout, q.mem_gb)
    with open(os.path.join(wdir, "trace.log"), "w") as f:
        f.write(out)
    if "Violated property" not in out:
        return None, "no trace produced"
    vals = []
    for line in out.splitlines():
        m = NONDET_RE.match(line)
        if m:
            vals.append((m.group(1), int(m.group(2).replace(" ", ""), 2)))
    vp = out[out.index("Violated property"):].splitlines()[1:4]
    return vals, " ".join(s.strip() for s in vp)


def native_replay(q, run_dir, wdir, vals, form=None, tag="r"):
    """Compile harness + real sources natively with the recorded nondet values.
    Returns (reproduced: bool|None, output)."""
    q2 = q
    if form is not None and form != q.form:
        import copy
        q2 = copy.copy(q)
        q2.form = form
        q2.defs = dict(q.defs)
    srcs, flags = sources_for(q2, run_dir, native=True)
    hdr = os.path.join(wdir, "replay_values.h")
    with open(hdr, "w") as f:
        f.write("static const unsigned long long vh_vals[] = {%s};\n" %
                (", ".join("%dULL" % v for _, v in vals) if vals else "0"))
        f.write("static const unsigned long vh_nvals = %d;\n" % len(vals))
    exe = os.path.join(wdir, "replay-%s" % tag)
    # AddressSanitizer/UBSan make memory-safety and undefined-behaviour counterexamples observable natively
    cmd = (["gcc", "-O1", "-g", "-w", "-fsanitize=address,undefined", "-fno-sanitize-recover=all", "-fno-omit-frame-pointer",
            "-DVERIF_REPLAY", "-I", wdir] + flags + srcs +
           [os.path.join(VERIF, "harness/common/replay_main.c"), "-o", exe, "-no-pie", "-Wl,--unresolved-symbols=ignore-all"])
    rc, out, _ = run_cmd(cmd, 300)
    if rc != 0:
        return None, "native build failed: " + out[-2000:]
    rc, out, _ = run_cmd([exe], 120)
    if rc == 101 or "CHECK-FAILED" in out or "AddressSanitizer" in out or "runtime error:" in out:
        return True, out
    if rc == 0:
        return False, out
    return None, out


def replay_failure(r, run_dir, prop_id, evid_dir):
    """Decide whether a solver FAIL is a VIOLATION (reproduces natively)."""
    q = r.q
    wdir = r.workdir
    vals, what = extract_trace(q, run_dir, wdir)
    info = {"query": q.descr(), "failed_properties": r.failed, "violated": what}
    if vals is None:
        info["replay"] = "no-trace: " + str(what)
        r.replay = info
        return info
    info["nondet_values"] = [[k, v] for k, v in vals[:20000]]
    tried = []
    reproduced = False
    if q.form == "T":
        ok, out = native_replay(q, run_dir, wdir, vals, form="I", tag="I")
        tried.append({"form": "I (real permutation)", "reproduced": ok, "output": out[-800:]})
        reproduced = bool(ok)
    if not reproduced:
        ok, out = native_replay(q, run_dir, wdir, vals, tag="same")
        tried.append({"form": q.form or "native", "reproduced": ok, "output": out[-800:]})
        reproduced = bool(ok)
    info["replays"] = tried
    info["reproduced"] = reproduced
    os.makedirs(os.path.join(evid_dir, "replay"), exist_ok=True)
    safe = re.sub(r"[^A-Za-z0-9_.-]+", "_", q.name)
    path = os.path.join(evid_dir, "replay", "%s-%s.json" % (prop_id, safe))
    with open(path, "w") as f:
        json.dump(info, f, indent=1)
    info["path"] = path
    r.replay = info
    return info


# ----------------------------------------------------------------------------

def run_pool(queries, run_dir, jobs, progress=True, budget_s=None):
    results = []
    t0 = time.time()
    # expensive first
    order = sorted(range(len(queries)), key=lambda i: -queries[i].cost)
    with cf.ThreadPoolExecutor(max_workers=jobs) as ex:
        futs = {ex.submit(run_query, queries[i], run_dir): i for i in order}
        done = 0
        for fu in cf.as_completed(futs):
            r = fu.result()
            results.append(r)
            done += 1
            if progress:
                sys.stderr.write("[%4d/%d %6.0fs] %-12s %6.1fs %5dMB %s %s\n" % (
                    done, len(queries), time.time() - t0, r.status, r.wall, r.rss_mb, r.q.name,
                    ("| " + "; ".join(r.failed)[:200]) if r.failed else (("| " + r.detail[:200]) if r.status != "PASS" else "")))
                sys.stderr.flush()
    results.sort(key=lambda r: r.q.name)
    return results


def tool_versions():
    v = {}
    for t, a in (("cbmc", ["cbmc", "--version"]), ("clang", ["clang-14", "--version"]), ("gcc", ["gcc", "--version"])):
        try:
            v[t] = subprocess.run(a, capture_output=True, text=True).stdout.splitlines()[0]
        except Exception:
            v[t] = "?"
    return v
