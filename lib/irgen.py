"""clang-14 -> LLVM IR -> byte-addressed C (enc/llvm/ll2c.py) for the checks that talk about the
optimised build (C11, C13) and about the C++ classes (C14, C17, C20)."""
import os
import subprocess
import sys
import threading

from . import vlib
sys.path.insert(0, os.path.join(vlib.VERIF, "enc"))
from llvm import ll2c  # noqa: E402

_lock = threading.Lock()


def ir_c_source(run_dir, tag, srcs, backend="c64", shares=vlib.DEFAULT_SHARES, opt="-O3", pair=False, cxx=False, extra_flags=(), prefix="ir_"):
    """srcs: repo-relative C/C++ files (or absolute paths).  Returns path of the generated C file."""
    out = os.path.join(run_dir, "ir-%s-%s-%d%d%d-%s%s.c" % (tag, backend, shares[0], shares[1], shares[2], opt.strip("-"), "-pair" if pair else ""))
    with _lock:
        if os.path.exists(out):
            return out
        cfgdir = os.path.join(run_dir, "cfg-%d-%d-%d" % tuple(shares))
        if not os.path.exists(os.path.join(cfgdir, "config.h")):
            vlib.write_config(cfgdir, tuple(shares))
        bdefs = vlib.BACKENDS[backend][0] if backend in vlib.BACKENDS else []
        lls = []
        for k, s in enumerate(srcs):
            path = s if os.path.isabs(s) else os.path.join(vlib.REPO, s)
            ll = out + ".%d.ll" % k
            cc = ["clang++-14", "-std=c++17", "-fno-exceptions", "-fno-rtti"] if (cxx and path.endswith((".cpp", ".cc"))) else ["clang-14"]
            cmd = cc + [opt, "-fno-vectorize", "-fno-slp-vectorize", "-fno-unroll-loops", "-S", "-emit-llvm", "-DHAVE_CONFIG_H",
                        "-I", cfgdir, "-I", os.path.join(vlib.REPO, "src")] + bdefs + list(extra_flags) + [path, "-o", ll]
            r = subprocess.run(cmd, capture_output=True, text=True)
            if r.returncode != 0:
                raise RuntimeError("clang failed on %s:\n%s" % (s, r.stderr[-2000:]))
            lls.append(ll)
        linked = out + ".ll"
        r = subprocess.run(["llvm-link-14", "-S"] + lls + ["-o", linked], capture_output=True, text=True)
        if r.returncode != 0:
            raise RuntimeError("llvm-link failed: " + r.stderr[-2000:])
        text, mod = ll2c.translate(open(linked).read(), prefix=prefix, pair=pair)
        with open(out + ".tmp", "w") as f:
            f.write(text)
        os.replace(out + ".tmp", out)
    return out


def extern_adapters(mod, extern_prefix):
    """C file text: x_name(uint8_t*, ...) -> name((void*)..., ...) for every external the translated unit calls."""
    L = ["/* adapters between byte-addressed translated code and the real C API */",
         "#include <ascon/aead.h>", "#include <ascon/aead-masked.h>", "#include <ascon/siv.h>", "#include <ascon/isap.h>", "#include <ascon/hash.h>",
         "#include <ascon/xof.h>", "#include <ascon/utility.h>", "#include <ascon/masking.h>", "#include <ascon/random.h>", "#include <stdint.h>"]
    for name, (ret, params, va) in sorted(mod.decls.items()):
        if name.startswith("llvm.") or name in ll2c.LIBC_MAP or name in mod.funcs:
            continue
        try:
            rt = ll2c.ctype(mod, ret)
            pts = [ll2c.ctype(mod, p) for p in params]
        except ll2c.Unsupported:
            continue
        ps = ", ".join("%s a%d" % (t, i) for i, t in enumerate(pts)) or "void"
        args = ", ".join(("(void *)a%d" % i) if t.endswith("*") else "a%d" % i for i, t in enumerate(pts))
        call = "%s(%s)" % (name, args)
        if rt == "void":
            L.append("void %s%s(%s) { %s; }" % (extern_prefix, ll2c.cid(name), ps, call))
        elif rt.endswith("*"):
            L.append("%s %s%s(%s) { return (uint8_t *)%s; }" % (rt, extern_prefix, ll2c.cid(name), ps, call))
        else:
            L.append("%s %s%s(%s) { return (%s)%s; }" % (rt, extern_prefix, ll2c.cid(name), ps, rt, call))
    return "\n".join(L) + "\n"


def cpp_unit(run_dir, tag, cpp_srcs, shares=vlib.DEFAULT_SHARES, backend="c64", opt="-O2", extra_flags=(), null_gep=False):
    """Compile C++ sources (repo-relative or absolute) with clang++, link, optimise as one module (devirtualisation),
    translate.  Returns (translated C path, adapter C path, skipped functions)."""
    out = os.path.join(run_dir, "cpp-%s-%s-%d%d%d.c" % (tag, backend, shares[0], shares[1], shares[2]))
    adp = out[:-2] + "-adapters.c"
    with _lock:
        if os.path.exists(out) and os.path.exists(adp):
            return out, adp
        cfgdir = os.path.join(run_dir, "cfg-%d-%d-%d" % tuple(shares))
        if not os.path.exists(os.path.join(cfgdir, "config.h")):
            vlib.write_config(cfgdir, tuple(shares))
        bdefs = vlib.BACKENDS[backend][0]
        lls = []
        for k, s in enumerate(cpp_srcs):
            path = s if os.path.isabs(s) else os.path.join(vlib.REPO, s)
            ll = out + ".%d.ll" % k
            cmd = ["clang++-14", "-std=c++17", opt, "-fno-exceptions", "-fno-rtti", "-fno-vectorize", "-fno-slp-vectorize", "-fno-unroll-loops",
                   "-S", "-emit-llvm", "-DHAVE_CONFIG_H", "-I", cfgdir, "-I", os.path.join(vlib.REPO, "src")] + bdefs + list(extra_flags) + [path, "-o", ll]
            r = subprocess.run(cmd, capture_output=True, text=True)
            if r.returncode != 0:
                raise RuntimeError("clang++ failed on %s (a documented member does not compile when used?):\n%s" % (s, r.stderr[-3000:]))
            lls.append(ll)
        linked = out + ".ll"
        r = subprocess.run(["llvm-link-14", "-S"] + lls + ["-o", linked], capture_output=True, text=True)
        if r.returncode != 0:
            raise RuntimeError("llvm-link failed: " + r.stderr[-2000:])
        r = subprocess.run(["opt-14", "-O2", "-vectorize-loops=false", "-vectorize-slp=false", "-S", linked, "-o", linked + ".opt"], capture_output=True, text=True)
        if r.returncode != 0:
            raise RuntimeError("opt failed: " + r.stderr[-2000:])
        text, mod = ll2c.translate(open(linked + ".opt").read(), prefix="ir_", pair=False, extern_prefix="x_", null_gep=null_gep)
        with open(adp, "w") as f:
            f.write(extern_adapters(mod, "x_"))
        with open(out + ".skipped", "w") as f:
            f.write("\n".join("%s: %s" % kv for kv in mod.skipped.items()))
        with open(out + ".tmp", "w") as f:
            f.write(text)
        os.replace(out + ".tmp", out)
    return out, adp
