#!/usr/bin/env python3
"""Markdown table of the recorded thorough-tier runs (evidence/thorough/*.json) and of the current quick evidence."""
import glob, json, os
V = os.path.dirname(os.path.dirname(os.path.abspath(__file__)))
def row(f):
    d = json.load(open(f)); c = d["coverage"]
    return "| %s | %d | %d | %d | %d | %d | %.0f | %.0f | %d |" % (d["property_id"], c["queries"], c["discharged"], c["failed"], c["inconclusive"], c["obligations"],
                                                             c["solver_s"], d["wall_s"], c["max_rss_mb"])
for tier, pat in (("thorough", "evidence/thorough/C*.json"), ("quick", "evidence/C*.json")):
    print("\n%s tier\n" % tier)
    print("| property | queries | discharged | failed | inconclusive | obligations | solver s (sum) | wall s | max RSS MB |")
    print("|---|---|---|---|---|---|---|---|---|")
    for f in sorted(glob.glob(os.path.join(V, pat))):
        print(row(f))
