#!/usr/bin/env python3
"""Regenerates MANIFEST.json from checks/*.py (MANIFEST dict in each module) so it is always valid."""
import importlib, json, os, sys
VERIF = os.path.dirname(os.path.dirname(os.path.abspath(__file__)))
sys.path.insert(0, VERIF)
ALL = ["C%02d" % i for i in range(1, 21)]
def main():
    checks, na = [], []
    for pid in ALL:
        try:
            mod = importlib.import_module("checks." + pid)
        except ModuleNotFoundError:
            na.append({"property_id": pid, "reason": "check not built yet (planned, see DESIGN.md section 3)"})
            continue
        m = getattr(mod, "MANIFEST", None)
        if m is None or m.get("not_applicable"):
            na.append({"property_id": pid, "reason": (m or {}).get("not_applicable", "check under construction")})
            continue
        checks.append({
            "property_id": pid,
            "quick_cmd": "./check %s --tier quick" % pid,
            "thorough_cmd": "./check %s --tier thorough" % pid,
            "evidence_file": "/verif/evidence/%s.json" % pid,
            "replay_cmd_template": "./check %s --replay {path}" % pid,
            "engine": "cbmc-cadical",
            "level_claimed": {"category": m.get("category", "model_checking"), "text": m["text"], "design_ref": m.get("design_ref", "DESIGN.md section 3 " + pid)},
            "level_note": m["note"],
            "technique": m.get("technique", "bounded model checking of the real C sources (goto-cc + CBMC 6.11, cadical SAT back end), symbolic inputs, unwinding assertions"),
        })
    man = {
        "version": 1,
        "setup_cmd": "./setup.sh",
        "hooks": {"guard": "ASCON_SUITE_VERIF",
                  "enable": "checks compile /repo/src directly with goto-cc -DASCON_SUITE_VERIF (no cmake build needed)",
                  "baseline_off_cmd": "cmake -G Ninja -S /repo -B /repo/_build >/dev/null && cmake --build /repo/_build >/dev/null && ctest --test-dir /repo/_build -j8 --timeout 900",
                  "source_commits": json.load(open(os.path.join(VERIF, "lib/hook_commits.json"))),
                  "add_only": True},
        "engines": [
            {"name": "cbmc-cadical", "path": "/verif/lib/vlib.py", "serves_properties": [c["property_id"] for c in checks],
             "kind_free_text": "goto-cc builds harness + real sources from /repo's working tree; CBMC 6.11 bit-blasts; cadical decides; counterexamples replayed natively (gcc) before being reported"},
            {"name": "asm-executor", "path": "/verif/enc/asm", "serves_properties": ["C08", "C10", "C18"],
             "kind_free_text": "partial-evaluating symbolic executor for the checked-in .S files: control concrete, data symbolic, emits straight-line C that CBMC compares with the C back end / the specification"},
            {"name": "llvm-ir-to-c", "path": "/verif/enc/llvm", "serves_properties": ["C11", "C13", "C14", "C17", "C20"],
             "kind_free_text": "clang-14 -emit-llvm of the real C/C++ sources translated to byte-addressed C for CBMC (optimised-build and C++ claims)"},
        ],
        "checks": checks,
        "not_applicable": na,
        "notes": "All checks are solver-based (bounded model checking of the real code). Bounds, stubs and what lies outside each claim are in DESIGN.md section 3 and in every evidence file.",
    }
    json.dump(man, open(os.path.join(VERIF, "MANIFEST.json"), "w"), indent=1)
    print("MANIFEST.json:", len(checks), "checks,", len(na), "not_applicable")
main()
