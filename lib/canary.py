#!/usr/bin/env python3
"""Engine canaries (DESIGN 2.6): small programs with known verdicts, run at setup.
A canary whose verdict differs from the expectation means the tool behaves
differently from what the checks were validated with."""
import os, subprocess, sys, tempfile, shutil
VERIF = os.path.dirname(os.path.dirname(os.path.abspath(__file__)))
CANARIES = [
    # (file, function, extra cbmc flags, expected "SUCCESSFUL"/"FAILED")
    ("canary/union.c", "hooked_cp_index", [], "SUCCESSFUL"),
    ("canary/union.c", "hooked_memcpy", [], "SUCCESSFUL"),
    ("canary/union.c", "witness", [], "FAILED"),
    ("canary/partial.c", "one_iteration", ["--unwindset", "one_iteration.0:1", "--partial-loops", "--no-unwinding-assertions"], "SUCCESSFUL"),
    ("canary/partial.c", "one_iteration_twin", ["--unwindset", "one_iteration_twin.0:1", "--partial-loops", "--no-unwinding-assertions"], "FAILED"),
]
def main():
    tmp = tempfile.mkdtemp(prefix="verif-canary-")
    bad = 0
    try:
        for src, fn, flags, exp in CANARIES:
            gb = os.path.join(tmp, "c.gb")
            subprocess.run(["goto-cc", os.path.join(VERIF, src), "-o", gb], check=True, capture_output=True)
            base = ["cbmc", gb, "--function", fn, "--sat-solver", "cadical", "--drop-unused-functions", "--max-field-sensitivity-array-size", "256"]
            if "--partial-loops" not in flags:
                base += ["--unwind", "20", "--unwinding-assertions"]
            out = subprocess.run(base + flags, capture_output=True, text=True).stdout
            got = "SUCCESSFUL" if "VERIFICATION SUCCESSFUL" in out else "FAILED" if "VERIFICATION FAILED" in out else "ERROR"
            ok = got == exp
            print("canary %-28s %-20s expected %-10s got %-10s %s" % (src, fn, exp, got, "ok" if ok else "MISMATCH"))
            bad += not ok
    finally:
        shutil.rmtree(tmp, ignore_errors=True)
    sys.exit(1 if bad else 0)
main()
