#!/usr/bin/env python3
import subprocess, os
V = os.path.dirname(os.path.dirname(os.path.abspath(__file__)))
t = subprocess.run(["python3", os.path.join(V, "lib/thorough_table.py")], capture_output=True, text=True).stdout
p = os.path.join(V, "DESIGN.md")
s = open(p).read()
a = s.index("<!-- TIER-TABLE-BEGIN -->") + len("<!-- TIER-TABLE-BEGIN -->")
b = s.index("<!-- TIER-TABLE-END -->")
open(p, "w").write(s[:a] + "\n" + t + "\n" + s[b:])
