"""Shape grids and helpers shared by the mode-level checks."""


def L(r):
    return [0, 1, r - 1, r, r + 1, 2 * r, 2 * r + 1]


def aead_rate(alg):
    return 16 if alg == 1 else 8


def aead_calls(alg, adlen, mlen):
    r = aead_rate(alg)
    return 1 + ((adlen // r + 1) if adlen > 0 else 0) + mlen // r + 1


ALGN = {0: "128", 1: "128a", 2: "80pq"}
AEAD_SRCS = {0: ["src/aead/ascon-aead-128.c", "src/aead/ascon-aead-inc-128.c"],
             1: ["src/aead/ascon-aead-128a.c", "src/aead/ascon-aead-inc-128a.c"],
             2: ["src/aead/ascon-aead-80pq.c", "src/aead/ascon-aead-inc-80pq.c"]}
AEAD_COMMON = ["src/aead/ascon-aead-common.c", "src/aead/ascon-aead-util.c"]


def aead_grid(alg, tier):
    r = aead_rate(alg)
    if tier == "quick":
        s = set()
        for a in L(r):
            s.add((a, r + 1))
        for m in L(r):
            s.add((r + 1, m))
        s.add((0, 0))
        return sorted(s)
    lens = list(range(0, 2 * r + 2)) if r == 8 else [0, 1, 7, 8, 9, 15, 16, 17, 31, 32, 33]
    lens = sorted(set(lens + [3 * r, 4 * r + 1]))
    return [(a, m) for a in lens for m in lens]


BIG_SHAPES = [(64, 100), (100, 257), (5, 1000)]


def siv_calls(alg, adlen, mlen):
    r = aead_rate(alg)
    auth = 1 + ((adlen // r + 1) if adlen > 0 else 0) + mlen // r + 1
    stream = 1 + (mlen + r - 1) // r
    return auth + stream


SIV_SRCS = {0: ["src/siv/ascon-siv-128.c"], 1: ["src/siv/ascon-siv-128a.c"], 2: ["src/siv/ascon-siv-80pq.c"]}
ISAPN = {0: "128a", 1: "128", 2: "80pq"}
ISAP_SRCS = {0: ["src/isap/ascon-isap-128a.c"], 1: ["src/isap/ascon-isap-128.c"], 2: ["src/isap/ascon-isap-80pq.c"]}


def isap_calls(alg, adlen, mlen):
    klen = 20 if alg == 2 else 16
    init = 2
    enc = 128 + (mlen + 7) // 8
    mac = 1 + (adlen // 8 + 1) + (mlen // 8 + 1) + klen * 8 + 1
    return init + enc + mac


HASH_SRCS = ["src/hash/ascon-xof.c", "src/hash/ascon-xofa.c", "src/hash/ascon-hash.c", "src/hash/ascon-hasha.c"]


def xof_calls(mlen, outlen, clen=0, namelen=0):
    n = 2 + mlen // 8 + (outlen + 7) // 8 + 2
    if clen:
        n += clen // 8 + 2
    if namelen > 32:
        n += 1 + namelen // 8 + 1 + 5
    return n
