"""Shape grids and helpers shared by the mode-level checks."""


def L(r):
    return [0, 1, r - 1, r, r + 1, 2 * r, 2 * r + 1]


def aead_rate(alg):
    return 16 if alg == 1 else 8


def aead_calls(alg, adlen, mlen):
    r = aead_rate(alg)
    return 1 + ((adlen // r + 1) if adlen > 0 else 0) + mlen // r + 1


ALGN = {0: "128", 1: "128a", 2: "80pq"}
AEAD_SRCS = {0: ["src/aead/ascon-aead-128.c", "src/aead/ascon-aead-inc-128.c"],
             1: ["src/aead/ascon-aead-128a.c", "src/aead/ascon-aead-inc-128a.c"],
             2: ["src/aead/ascon-aead-80pq.c", "src/aead/ascon-aead-inc-80pq.c"]}
AEAD_COMMON = ["src/aead/ascon-aead-common.c", "src/aead/ascon-aead-util.c"]


def aead_grid(alg, tier):
    r = aead_rate(alg)
    if tier == "quick":
        s = set()
        for a in L(r):
            s.add((a, r + 1))
        for m in L(r):
            s.add((r + 1, m))
        s.add((0, 0))
        return sorted(s)
    lens = list(range(0, 2 * r + 2)) if r == 8 else [0, 1, 7, 8, 9, 15, 16, 17, 31, 32, 33]
    lens = sorted(set(lens + [3 * r, 4 * r + 1]))
    return [(a, m) for a in lens for m in lens]


BIG_SHAPES = [(64, 100), (100, 257), (5, 1000)]


def siv_calls(alg, adlen, mlen):
    r = aead_rate(alg)
    auth = 1 + ((adlen // r + 1) if adlen > 0 else 0) + mlen // r + 1
    stream = 1 + (mlen + r - 1) // r
    return auth + stream


SIV_SRCS = {0: ["src/siv/ascon-siv-128.c"], 1: ["src/siv/ascon-siv-128a.c"], 2: ["src/siv/ascon-siv-80pq.c"]}
ISAPN = {0: "128a", 1: "128", 2: "80pq"}
ISAP_SRCS = {0: ["src/isap/ascon-isap-128a.c"], 1: ["src/isap/ascon-isap-128.c"], 2: ["src/isap/ascon-isap-80pq.c"]}


def isap_calls(alg, adlen, mlen):
    klen = 20 if alg == 2 else 16
    init = 2
    enc = 128 + (mlen + 7) // 8
    mac = 1 + (adlen // 8 + 1) + (mlen // 8 + 1) + klen * 8 + 1
    return init + enc + mac


HASH_SRCS = ["src/hash/ascon-xof.c", "src/hash/ascon-xofa.c", "src/hash/ascon-hash.c", "src/hash/ascon-hasha.c"]


def xof_calls(mlen, outlen, clen=0, namelen=0):
    n = 2 + mlen // 8 + (outlen + 7) // 8 + 2
    if clen:
        n += clen // 8 + 2
    if namelen > 32:
        n += 1 + namelen // 8 + 1 + 5
    return n


MAC_SRCS = HASH_SRCS + ["src/mac/ascon-prf.c", "src/mac/ascon-hmac.c", "src/mac/ascon-hmaca.c", "src/mac/ascon-kmac.c",
                        "src/mac/ascon-kmaca.c", "src/aead/ascon-aead-common.c"]
KDF_SRCS = MAC_SRCS + ["src/kdf/ascon-hkdf.c", "src/kdf/ascon-hkdfa.c", "src/kdf/ascon-kdf.c", "src/kdf/ascon-kdfa.c",
                       "src/password/ascon-pbkdf2.c", "src/password/ascon-pbkdf2-hmac.c"]


def hash_calls(m):
    return m // 8 + 7


def hmac_calls(klen, mlen):
    n = hash_calls(64 + mlen) + hash_calls(96)
    if klen > 64:
        n += 2 * hash_calls(klen)
    return n


def kat_precheck(run_dir, algs):
    """Validate the reference models against the repository's KAT files (native run)."""
    import os, subprocess
    from lib import vlib
    exe = os.path.join(run_dir, "katcheck")
    if not os.path.exists(exe):
        r = subprocess.run(["gcc", "-O1", "-I", os.path.join(vlib.VERIF, "spec"), os.path.join(vlib.VERIF, "spec/spec.c"),
                            os.path.join(vlib.VERIF, "spec/katcheck.c"), "-o", exe], capture_output=True, text=True)
        if r.returncode != 0:
            return [{"name": "katcheck-build", "ok": False, "detail": r.stderr[-500:]}]
    out = []
    for alg, fn in algs:
        p = os.path.join(vlib.REPO, "test/kat", fn)
        r = subprocess.run([exe, alg, p], capture_output=True, text=True)
        out.append({"name": "oracle-vs-KAT:" + fn, "ok": r.returncode == 0, "detail": r.stdout.strip()[-200:]})
    return out


MASKED_AEAD_SRCS = {0: ["src/aead/ascon-aead-masked-128.c"], 1: ["src/aead/ascon-aead-masked-128a.c"], 2: ["src/aead/ascon-aead-masked-80pq.c"]}
MASKED_COMMON = ["src/aead/ascon-aead-masked-common.c", "src/aead/ascon-aead-common.c", "src/masking/ascon-masked-state.c", "src/masking/ascon-masked-key.c"]
MASKED_WORD = {"c64": "src/masking/ascon-masked-word-c64.c", "direct": "src/masking/ascon-masked-word-c64.c", "generic": "src/masking/ascon-masked-word-c64.c",
               "c32": "src/masking/ascon-masked-word-c32.c"}
MASKED_PERM = {"c64": ["src/masking/ascon-x2-c64.c", "src/masking/ascon-x3-c64.c", "src/masking/ascon-x4-c64.c"],
               "c32": ["src/masking/ascon-x2-c32.c", "src/masking/ascon-x3-c32.c", "src/masking/ascon-x4-c32.c"]}
MASKED_PERM["direct"] = MASKED_PERM["generic"] = MASKED_PERM["c64"]
SHARE_TRIPLES = [(k, d, m) for m in (2, 3, 4) for k in (2, 3, 4) for d in (1, 2, 3, 4) if k <= m and d <= k]
# cmake also accepts key/data share counts above the maximum; the headers clamp them
CLAMPED_TRIPLES = [(4, 2, 3), (4, 4, 2), (3, 3, 2), (4, 3, 3)]


def masked_query(Query, prop, alg, ad, m, be, shares, mode=0, keyinit=0, short=None, form="T"):
    name = "masked-%s:%s:%s:%s:k%dd%dm%d:ad%d:m%d" % ({0: "enc", 1: "dec", 4: "short"}[mode], ALGN[alg], be, form, shares[0], shares[1], shares[2], ad, m)
    defs = {"ALG": alg, "ADLEN": ad, "MLEN": m, "MODE": mode, "KEYINIT": keyinit, "LS_MAX": aead_calls(alg, ad, m) + 1}
    if keyinit:
        name += ":keyinit"
    if mode == 4:
        name += ":short%d" % short
        defs["SHORT"] = short
    srcs = MASKED_AEAD_SRCS[alg] + MASKED_COMMON
    extra = ["harness/common/trng_stub.c"]
    if be == "x86asm":
        gen = ["asm_masked_word"]
    else:
        srcs = srcs + [MASKED_WORD[be]]
        gen = []
    if form == "T":
        extra.append("harness/common/lockstep_masked.c")
    else:
        srcs = srcs + (MASKED_PERM[be] if be != "x86asm" else [])
        if be == "x86asm":
            gen.append("asm_masked_perm")
    q = Query(name, "harness/C10/masked_aead.c", repo_srcs=srcs, extra_srcs=extra, backend=be, shares=shares, form=form, defs=defs,
              shape={"alg": ALGN[alg], "adlen": ad, "mlen": m, "mode": mode, "key_init": keyinit, "short": short},
              unwind=max(200, ad + 20, m + 20), timeout=1800, mem_gb=14)
    q.asm_parts = gen
    return q
