"""C09 - identical results in every build configuration (every configuration against the SAME oracles)."""
import copy
import importlib
from lib.vlib import Query
from checks.common import *

PROPERTY = "C09"
META = {
    "level": "model_checking",
    "functions": ["the harness families of C01-C08, C10, C14, C15 re-run per configuration: permutation back end x86-64 asm / C64 / C32 / direct-XOR / generic, share triples, "
                  "and the acquire/release checker build (ASCON_FORCE_GENERIC + ASCON_CHECK_ACQUIRE_RELEASE) with abort() turned into an assertion",
                  "balance:* - masked key set-up + masked AEAD encrypt + decrypt of each algorithm in the checker build with the real src/random/ascon-trng-mixer.c "
                  "(system seed source and permutations stubbed with arbitrary values), every share triple (quick: 6 triples incl. all d=1 shapes)",
                  "cfg-bytes:* - the aliased byte-range primitives on all five back ends against the one byte-array model"],
    "bounds": "configurations are enumerated (5 back ends; key/data/max share triples incl. clamped ones; checker build); per configuration a cross-section of the shape grids of the other properties, "
              "all data symbolic; per-back-end pre-computed initial values (XOF, HASH, fixed-32, KMAC, KMACA, in the S / W / B encodings) compared with the specification permutation of the generic first block",
    "outside": "host feature macros other than those of this host's config.h; other compilers; the non-host assembly back ends (C18)",
    "assumptions": ["equality between configurations follows from equality of each configuration with the same reference model", "checker build: single-threaded use, the static `acquired` flag starts at 0"],
    "explanation": "same oracles for every configuration; checker build explored with abort() as an assertion",
}
MANIFEST = {
    "text": "Every build configuration is checked against the same reference models (so all configurations agree with each other): the harnesses of the functional properties are re-run with the "
            "direct-XOR, generic and x86-64-assembly back ends and with the share triples; the pre-computed per-back-end initial values are proved equal to what the generic path computes; in the "
            "acquire/release checker build every API family (one-shot and init-use-free sequences) is proved unable to reach abort(), the masked AEADs with the host's real random front end "
            "(which acquires the permutation for itself) on every share triple.",
    "note": "Trusted: CBMC/cadical, the reference models (KAT-validated). Quick tier = cross-section; thorough tier of C01-C08/C10/C14/C15 repeats their full grids on all five back ends.",
}
SOURCES = ["C01", "C02", "C03", "C04", "C05", "C06", "C07", "C14", "C15"]


def clone(q, backend, prefix, checker=False):
    q2 = copy.copy(q)
    q2.defs = dict(q.defs)
    q2.extra_srcs = list(q.extra_srcs)
    q2.cc_flags = list(q.cc_flags)
    q2.backend = backend
    q2.name = "%s:%s" % (prefix, q.name.replace(":c64:", ":%s:" % backend).replace(":c64", ":" + backend))
    q2.group = prefix
    if checker:
        q2.cc_flags += ["-Dabort=verif_abort"]
        q2.extra_srcs.append("harness/common/abort_stub.c")
    return q2


def queries(tier):
    qs = []
    seen = set()
    per_mod = 6 if tier == "quick" else 40
    for mid in SOURCES:
        mod = importlib.import_module("checks." + mid)
        base = [q for q in mod.queries("quick") if q.backend == "c64" and q.form == "T" and not getattr(q, "asm_parts", None)]
        # spread over the module's groups
        groups = {}
        for q in base:
            groups.setdefault(q.group, []).append(q)
        picked = []
        while len(picked) < per_mod and any(groups.values()):
            for g in list(groups):
                if groups[g]:
                    picked.append(groups[g].pop(len(groups[g]) // 2))
                if len(picked) >= per_mod:
                    break
        for q in picked:
            for be in ("direct", "generic", "x86asm") + (("c32",) if mid in ("C02", "C07") else ()):
                qs.append(clone(q, be, "cfg"))
            qs.append(clone(q, "generic_check", "checker", checker=True))
    # the byte-range primitives every mode is built from, aliased (in-place) forms, on all five back ends against the one byte-array model
    c08 = importlib.import_module("checks.C08")
    for q in c08.queries("quick"):
        if q.name.startswith("bytes:") and "inplace" in q.name:
            q2 = copy.copy(q)
            q2.name = "cfg-bytes:" + q.name[len("bytes:"):]
            q2.group = "cfg-bytes"
            qs.append(q2)
    # pre-computed initial values on every back end (integrated form: real permutation, real tables)
    c03 = importlib.import_module("checks.C03")
    c04 = importlib.import_module("checks.C04")
    for be in ("c64", "c32", "direct", "generic", "x86asm"):
        for fam in (0, 1):
            qs.append(c03.q(fam, 0, be, 1, form="I", tag=":iv"))
            qs.append(c03.q(fam, 2, be, 1, outlen=9, form="I", tag=":iv"))
            qs.append(c03.q(fam, 3, be, 0, outlen=8, fixlen=32, form="I", tag=":iv"))
        qs.append(c04.q(7, be, 1, outlen=32, klen=1, fam=1, form="I"))
        if tier == "thorough":
            qs.append(c04.q(7, be, 1, outlen=32, klen=1, fam=0, form="I"))
    # share triples: masked AEAD on each triple (C back ends + assembly)
    triples = [(4, 2, 4), (2, 1, 2), (3, 2, 3), (3, 3, 3), (4, 3, 4), (4, 4, 4), (4, 2, 3)] if tier == "quick" else SHARE_TRIPLES + CLAMPED_TRIPLES
    for sh in triples:
        for be in (("c64", "x86asm") if tier == "quick" else ("c64", "c32", "x86asm")):
            for alg in ((0,) if tier == "quick" else (0, 1, 2)):
                r = aead_rate(alg)
                for mode in (0, 1):       # encrypt and decrypt (the trailing partial block takes different helpers per share count)
                    q = masked_query(Query, "C09", alg, r + 1, r + 1, be, sh, mode=mode)
                    q.name = "shares:" + q.name
                    q.group = "shares"
                    qs.append(q)
    # acquire/release balance where the permutation state and the random source meet: masked AEADs with the host's real
    # random front end (which acquires its own state per draw), every share triple, checker build
    btriples = [(2, 1, 2), (4, 1, 4), (3, 2, 3), (4, 2, 4), (4, 4, 4), (3, 1, 3)] if tier == "quick" else SHARE_TRIPLES
    for sh in btriples:
        for alg in (0, 1, 2):
            r = aead_rate(alg)
            for (ad, m) in ([(r + 1, r + 1)] if tier == "quick" else [(0, 0), (r + 1, r + 1), (r, 2 * r)]):
                q = Query("balance:masked-%s:k%dd%dm%d:ad%d:m%d" % (ALGN[alg], sh[0], sh[1], sh[2], ad, m), "harness/C09/balance.c",
                          repo_srcs=MASKED_AEAD_SRCS[alg] + MASKED_COMMON + [MASKED_WORD["generic"], "src/core/ascon-direct-xor.c", "src/core/ascon-clean.c",
                                                                         "src/random/ascon-trng-mixer.c"],
                          extra_srcs=["harness/common/abort_stub.c"], backend="generic_check", shares=sh, form="I", with_backend=False, with_spec=False,
                          defs={"ALG": alg, "ADLEN": ad, "MLEN": m}, cc_flags=["-Dabort=verif_abort"], unwind=200, timeout=900,
                          shape={"alg": ALGN[alg], "shares": "%d/%d/%d" % sh, "adlen": ad, "mlen": m, "trng": "ascon-trng-mixer.c (real)", "checker": True})
                q.group = "balance"
                qs.append(q)
    out, names = [], set()
    for q in qs:
        if q.name not in names:
            names.add(q.name)
            out.append(q)
    return out
