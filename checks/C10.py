"""C10 - masked code computes the unmasked function for every randomness and share count."""
from lib.vlib import Query
from checks.common import *

PROPERTY = "C10"
META = {
    "level": "model_checking",
    "functions": ["src/masking/ascon-masked-word-{c64,c32}.c: all 33 ascon_masked_word_* + pad/separator",
                  "src/masking/ascon-word-asm-x86-64.S (via enc/asm executor)", "src/masking/ascon-x{2,3,4}-{c64,c32}.c: ascon_xN_permute",
                  "src/masking/ascon-x{2,3,4}-asm-x86-64.S (via enc/asm executor)", "src/masking/ascon-masked-state.c: ascon_xN_randomize/copy_*",
                  "src/masking/ascon-masked-key.c: ascon_masked_key_{128,160}_{init,extract,randomize_with_trng}",
                  "src/aead/ascon-aead-masked-{128,128a,80pq}.c, ascon-aead-masked-common.c"],
    "bounds": "word operations: input shares (incl. unused upper shares) and every random draw symbolic, every size in the documented range, max-shares 2/3/4 builds; "
              "permutations: per-round obligations R_0..R_11 (one loop body via --unwindset L:1 --partial-loops, all shares and `preserve` symbolic), Z (no rounds), "
              "K (concrete data, every start round, normal unwinding: pins loop control), F (full symbolic run from rounds 10/11), 2R (two consecutive rounds, x2); "
              "masked AEAD: shape grid concrete, key/nonce/data/tag/random tape/key sharing symbolic, every share triple (key<=max, data<=key) plus clamped ones",
    "outside": "12-round masked permutation as a single miter (does not finish; replaced by per-round obligations + stated composition argument); AVR masked back ends; lengths outside the grid",
    "assumptions": ["composition of per-round obligations: prologue and epilogue of ascon_xN_permute are mutually inverse bijections between state and locals (Z), so P;B_r;..;B_11;E = (P;B_r;E);..;(P;B_11;E)",
                    "masked AEAD (transcript form): ascon_xN_permute replaced by a stub that un-masks, records, and returns the result under an arbitrary re-sharing with `preserve` havocked",
                    "random source = unconstrained value per draw (harness/common/trng_stub.c)"],
    "explanation": "bounded model checking of masked words / per-round masked permutations / masked AEAD against un-masked models",
}
MANIFEST = {
    "text": "Bounded model checking over all input shares and all random tapes: each masked-word function equals its plain operation on the un-masked values; each masked "
            "permutation round equals the specification round (per-round extraction on the unmodified source) with loop control pinned by concrete full runs; state/key helpers "
            "preserve values, extract(init(k)) = k, randomize refreshes every share; masked AEAD equals the ASCON v1.2 model for every key sharing and tape, for every share configuration.",
    "note": "Trusted: CBMC/cadical; CBMC's --partial-loops semantics (pinned by a canary); the stated composition argument for rounds; share layout model harness/common/masked_model.h "
            "(written from the header documentation, cross-checked by load/store queries against byte strings); assembly executor for the x86-64 masked files.",
}
WORD_OPS = {0: "zero", 1: "load", 2: "load_partial", 3: "load_32", 4: "store", 5: "store_partial", 6: "randomize", 7: "randomize_inplace",
            8: "xor", 9: "replace", 10: "from", 11: "from_inplace", 12: "pad", 13: "separator"}


def wq(n, be, op, mx, size=0, srcn=None):
    defs = {"N": n, "OP": op, "SIZE": size}
    name = "word:x%d:%s:max%d:%s" % (n, be, mx, WORD_OPS[op])
    if op in (2, 5, 9, 12):
        name += ":s%d" % size
    if srcn:
        defs["SRCN"] = srcn
        name += ":x%d" % srcn
    q = Query(name, "harness/C10/word.c", repo_srcs=[MASKED_WORD[be]] if be != "x86asm" else [], extra_srcs=["harness/common/trng_stub.c"],
              backend=be, shares=(min(4, mx), 1, mx), defs=defs, unwind=100, timeout=600, with_backend=False, with_spec=False,
              shape={"fn": "ascon_masked_word_x%d_%s" % (n, WORD_OPS[op]), "size": size, "src_shares": srcn, "max_shares": mx})
    if be == "x86asm":
        q.asm_parts = ["asm_masked_word"]
    return q


def word_queries(be, mxs, tier):
    qs = []
    for mx in mxs:
        for n in range(2, mx + 1):
            for op in WORD_OPS:
                if op in (10, 11):
                    for srcn in range(2, mx + 1):
                        if srcn != n:
                            qs.append(wq(n, be, op, mx, srcn=srcn))
                elif op in (2, 5):
                    for s in (range(1, 8) if tier == "thorough" or mx == 4 else [1, 4, 7]):
                        qs.append(wq(n, be, op, mx, size=s))
                elif op in (9, 12):
                    if op == 12 and n != 2:
                        continue
                    for s in (range(0, 8) if tier == "thorough" or mx == 4 else [0, 3, 7]):
                        qs.append(wq(n, be, op, mx, size=s))
                elif op == 13 and n != 2:
                    continue
                else:
                    qs.append(wq(n, be, op, mx))
    return qs


def pq(n, be, kind, rnd, mx=4, iters=1):
    kn = {0: "R", 1: "Z", 2: "K", 3: "2R", 4: "F"}[kind]
    srcs, pl = [], None
    if be != "x86asm":
        src = MASKED_PERM[be][n - 2]
        srcs = [src]
        if kind in (0, 3):
            pl = dict(src=src, pattern="while (first_round", iters=iters)
    cost = {2: 40, 3: 250, 4: 500}[n] * (1 if kind in (0, 3) else 0.1) * (4 if kind == 3 else 1)
    q = Query("perm:x%d:%s:max%d:%s:r%d" % (n, be, mx, kn, rnd), "harness/C10/perm_round.c", repo_srcs=srcs, backend=be, shares=(mx, 1, mx),
              defs={"N": n, "KIND": kind, "ROUND": rnd}, partial_loop=pl, unwind=100, timeout=2400, symbolic=kind != 2, with_backend=False,
              shape={"perm": "ascon_x%d_permute" % n, "obligation": kn, "round": rnd, "max_shares": mx}, cost=cost, mem_gb=8)
    if be == "x86asm":
        q.asm_parts = ["asm_masked_perm:%d:%s:%d" % (n, "one" if kind in (0, 3) else "full", iters)]
    return q


def perm_queries(be, tier):
    qs = []
    for n in (2, 3, 4):
        # x4 rounds cost 250-300 s each: the quick tier keeps one (c64, last round); all 12 x 3 back ends are in thorough
        rr = range(12) if (tier == "thorough" or n == 2) else ([0, 5, 11] if n == 3 else ([11] if be == "c64" else []))
        for r in rr:
            qs.append(pq(n, be, 0, r))
        qs.append(pq(n, be, 1, 12))
        for r in (range(0, 13) if tier == "thorough" else [0, 1, 6, 11, 12]):     # 13 and above are outside the documented domain (c32 forms a pointer past its table)
            qs.append(pq(n, be, 2, r))
        if tier == "thorough" or n < 4:
            qs.append(pq(n, be, 4, 11))
        if n == 2:
            qs.append(pq(n, be, 4, 10))
            if tier == "thorough":
                for r in range(0, 11):
                    qs.append(pq(n, be, 3, r, iters=2))
        if n < 4 and (tier == "thorough" or be == "x86asm"):
            # builds with fewer maximum shares: in C the same text with a narrower state type; in the x86-64 assembly a
            # separate preprocessor variant of the whole function with other share offsets (each variant is checked)
            for mx in range(n, 4):
                qs.append(pq(n, be, 0, 3 if tier == "thorough" else 11, mx=mx))
                qs.append(pq(n, be, 2, 0, mx=mx))
    return qs


def sk_query(kind, n, be, shares, share, srcn=None):
    kn = {0: "randomize", 1: "copy_to_x1", 2: "copy_from_x1", 3: "copy_from", 4: "key128", 5: "key160"}[kind]
    name = "%s:x%d:%s:k%dd%dm%d:share%d" % (kn, n, be, shares[0], shares[1], shares[2], share)
    defs = {"KIND": kind, "N": n, "SHARE": share}
    if srcn:
        defs["SRCN"] = srcn
        name += ":from%d" % srcn
    q = Query(name, "harness/C10/state_key.c", repo_srcs=["src/masking/ascon-masked-state.c", "src/masking/ascon-masked-key.c"] + ([MASKED_WORD[be]] if be != "x86asm" else []),
              extra_srcs=["harness/common/trng_stub.c"], backend=be, shares=shares, form="I", defs=defs, unwind=100, timeout=600,
              shape={"fn": kn, "shares": n, "refreshed_share": share, "src_shares": srcn})
    if be == "x86asm":
        q.asm_parts = ["asm_masked_word"]
    return q


def helper_queries(be, tier):
    qs = []
    for n in (2, 3, 4):
        sh = (4, 1, 4)
        for share in range(n):
            qs.append(sk_query(0, n, be, sh, share))
        qs.append(sk_query(1, n, be, sh, 0))
        qs.append(sk_query(2, n, be, sh, 0))
        for srcn in (2, 3, 4):
            qs.append(sk_query(3, n, be, sh, 0, srcn=srcn))
    for ks in (2, 3, 4):
        for share in range(ks):
            qs.append(sk_query(4, ks, be, (ks, 1, 4), share))
            qs.append(sk_query(5, ks, be, (ks, 1, 4), share))
    if tier == "thorough":
        for mx in (2, 3):
            for ks in range(2, mx + 1):
                for share in range(ks):
                    qs.append(sk_query(4, ks, be, (ks, 1, mx), share))
                    qs.append(sk_query(5, ks, be, (ks, 1, mx), share))
    return qs


def aead_queries(be, tier):
    qs = []
    triples = SHARE_TRIPLES + CLAMPED_TRIPLES if tier == "thorough" else [(4, 2, 4), (2, 1, 2), (3, 3, 3), (4, 4, 4), (2, 2, 4), (4, 2, 3)]
    for alg in (0, 1, 2):
        r = aead_rate(alg)
        for sh in triples:
            shapes = [(r + 1, r + 1)] if sh != (4, 2, 4) else [(0, 0), (r + 1, r + 1), (1, 2 * r + 1), (2 * r, r - 1), (r, r)]
            if tier == "thorough":
                shapes = sorted(set(shapes + [(0, 0), (1, 2 * r + 1), (r, r)]))
                if sh == (4, 2, 4):
                    shapes = sorted(set(shapes + [(a, m) for a in L(r)[:5] for m in L(r)[:5]]))
            for ad, m in shapes:
                qs.append(masked_query(Query, "C10", alg, ad, m, be, sh, mode=0))
                qs.append(masked_query(Query, "C10", alg, ad, m, be, sh, mode=1))
            qs.append(masked_query(Query, "C10", alg, 0, 1, be, sh, mode=0, keyinit=1))
        qs.append(masked_query(Query, "C10", alg, 3, 0, be, (4, 2, 4), mode=4, short=15))
        qs.append(masked_query(Query, "C10", alg, 3, 0, be, (4, 2, 4), mode=4, short=0))
    return qs


def queries(tier):
    qs = []
    backends = ["c64", "c32", "x86asm"]
    for be in backends:
        qs += word_queries(be, [2, 3, 4], tier)
        qs += perm_queries(be, tier)
        qs += helper_queries(be, tier)
        qs += aead_queries(be, tier)
    return qs
