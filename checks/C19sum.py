"""asconsum queries of C19 (imported by checks/C19.py)."""
from lib.vlib import Query


def q(kind, alg=0, flen=0, llen=1, rderr=0, variant=0, maincheck=0):
    kn = {1: "sum-hash_file", 2: "sum-check_file", 3: "sum-check_garbage", 4: "sum-to_hex_digit", 6: "sum-main"}[kind]
    name = "%s:alg%d:f%d" % (kn, alg, flen) + (":l%d" % llen if kind == 3 else "") + (":rderr%d" % rderr if rderr else "") + (":v%d" % variant if kind == 2 else "") + (":check" if maincheck else "")
    return Query(name, "harness/C19/sum.c", backend="c64", with_backend=False, with_spec=False, includes=["apps/asconsum", "apps"],
                 defs={"KIND": kind, "ALG": alg, "FLEN": flen, "LLEN": llen, "RDERR": rderr, "VARIANT": variant, "MAINALG": alg, "MAINCHECK": maincheck},
                 shape={"function": kn, "algorithm": alg, "file_bytes": flen, "line_chars": llen, "read_error_at": rderr}, unwind=max(100, llen + 8), timeout=900, mem_gb=12,
                 flags=["--max-field-sensitivity-array-size", "2048"])   # the tool's line buffer is 1024 bytes


def queries(tier):
    qs = []
    for alg in range(4):
        for n in ([0, 1, 31, 32, 33, 65] if (tier == "thorough" or alg == 0) else [33]):
            qs.append(q(1, alg, n))
        qs.append(q(1, alg, 40, rderr=1))
        qs.append(q(1, alg, 40, rderr=33))
    # check mode: one well-formed line (digits symbolic) per algorithm; arbitrary lines of every length around the field
    # boundaries (memory safety of the parser: hash[] is 32 bytes, the line buffer 1024)
    for alg in range(4):
        for v in (0, 1):
            for flen in ([5] if tier == "quick" else [0, 5, 33]):
                qs.append(q(2, alg, flen, variant=v))
    qs.append(q(4))
    for alg in range(4):
        qs.append(q(6, alg, 33))
        qs.append(q(6, alg, 33, rderr=1))
        qs.append(q(6, alg, 5, maincheck=1))
    for llen in ([1, 2, 63, 64, 65, 66, 67, 68, 69, 70, 80, 100] if tier == "quick" else list(range(1, 101))):
        qs.append(q(3, 0, 5, llen=llen))
    return qs
