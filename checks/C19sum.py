"""asconsum queries of C19 (imported by checks/C19.py)."""
from lib.vlib import Query


def q(kind, alg=0, flen=0, llen=1, rderr=0):
    kn = {1: "sum-hash_file", 2: "sum-check_file", 3: "sum-check_garbage"}[kind]
    name = "%s:alg%d:f%d" % (kn, alg, flen) + (":l%d" % llen if kind == 3 else "") + (":rderr%d" % rderr if rderr else "")
    return Query(name, "harness/C19/sum.c", backend="c64", with_backend=False, with_spec=False, includes=["apps/asconsum", "apps"],
                 defs={"KIND": kind, "ALG": alg, "FLEN": flen, "LLEN": llen, "RDERR": rderr},
                 shape={"function": kn, "algorithm": alg, "file_bytes": flen, "line_chars": llen, "read_error_at": rderr}, unwind=100, timeout=900, mem_gb=12)


def queries(tier):
    qs = []
    for alg in range(4):
        for n in ([0, 1, 31, 32, 33, 65] if (tier == "thorough" or alg == 0) else [33]):
            qs.append(q(1, alg, n))
        qs.append(q(1, alg, 40, rderr=1))
        qs.append(q(1, alg, 40, rderr=33))
    # check_file (KIND 2/3 of harness/C19/sum.c): the line parser's control flow is data dependent throughout and the
    # queries do not finish within the budget (> 250 s each, probed); not registered -- stated as outside in the evidence
    return qs
