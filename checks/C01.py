"""C01 - AEAD encryption computes the ASCON v1.2 function."""
from lib.vlib import Query
from checks.common import *

PROPERTY = "C01"
META = {
    "level": "model_checking",
    "functions": ["ascon128_aead_encrypt", "ascon128a_aead_encrypt", "ascon80pq_aead_encrypt",
                  "ascon_aead_absorb_8/16", "ascon_aead_encrypt_8/16",
                  "ascon{128,128a,80pq}_aead_{init,start,encrypt_block,encrypt_finalize}",
                  "ascon{128,128a,80pq}_masked_aead_encrypt (+ ascon-aead-masked-common.c, masked word back end, masked key init)"],
    "bounds": "shape = (algorithm, AD length, plaintext length, split point, back end) concrete, one query each; key, nonce, AD, plaintext "
              "and prior output buffer contents symbolic. quick: AD x PT on the row/column through (r+1, r+1) of L(r)={0,1,r-1,r,r+1,2r,2r+1} on c64 and c32, plus (r+1,r+1) and (r-1,2r+1) on direct/generic/x86asm; "
              "thorough: Cartesian grid 0..2r+1 plus 3r, 4r+1, plus (64,100), (100,257), (5,1000). Transcript form (permutation = free function) "
              "on the whole grid, integrated form (real permutation inside) on 3 shapes per algorithm and back end.",
    "outside": "lengths not in the grid as a direct claim (largest encoded message 1000 bytes), in particular messages of 2^32 bytes and more (a length narrowed to 32 bits in a helper would go unnoticed: seed C06-2); C++ byte_array overloads (C17)",
    "assumptions": ["transcript form: equality holds for every permutation function; combined with C08 (back end == specification) by congruence",
                    "explicit_bzero modelled as memset"],
    "explanation": "lock-step transcript equivalence + integrated equivalence against spec_aead_encrypt",
}
MANIFEST = {
    "text": "Bounded model checking: the real mode code (one-shot, incremental, masked) is proved equal to a byte-level model of ASCON v1.2 "
            "encryption for every key, nonce, AD and plaintext at each shape of a length grid that covers empty, partial, exact and multi-block "
            "cases for both rates, on each back end; with the permutation abstracted as an uninterpreted function (lock-step transcripts) and, "
            "on selected shapes, with the real permutation inside.",
    "note": "Trusted: CBMC/cadical, spec/spec.c (validated against the repo's 3x1089 AEAD KAT vectors at setup), lock-step composition argument "
            "(DESIGN 2.3) joining these results with C08/C10. Lengths outside the grid are outside the claim.",
}


def enc_query(alg, ad, m, be, form, mode=0, split=0, inplace=0, tier="quick"):
    name = "enc:%s:%s:%s:ad%d:m%d" % (ALGN[alg], be, form, ad, m)
    if mode == 2:
        name = "inc:%s:%s:%s:ad%d:m%d:s%d" % (ALGN[alg], be, form, ad, m, split)
    if inplace:
        name += ":inplace"
    n = aead_calls(alg, ad, m)
    return Query(name, "harness/C01/aead.c", repo_srcs=AEAD_SRCS[alg] + AEAD_COMMON, backend=be, form=form,
                 defs={"ALG": alg, "ADLEN": ad, "MLEN": m, "MODE": mode, "SPLIT": split, "INPLACE": inplace, "LS_MAX": n + 1},
                 shape={"alg": ALGN[alg], "adlen": ad, "mlen": m, "mode": mode, "split": split, "inplace": inplace},
                 unwind=max(70, ad + 20, m + 20), timeout=900 if form == "T" else 1800)


def queries(tier):
    qs = []
    tbackends = ["c64", "c32"] if tier == "quick" else ["c64", "c32", "direct", "generic", "x86asm"]
    for alg in (0, 1, 2):
        r = aead_rate(alg)
        for be in tbackends:
            grid = aead_grid(alg, tier)
            if tier == "thorough" and be not in ("c64",):
                grid = aead_grid(alg, "quick")
            for ad, m in grid:
                qs.append(enc_query(alg, ad, m, be, "T"))
            if tier == "thorough" and be == "c64":
                for ad, m in BIG_SHAPES:
                    qs.append(enc_query(alg, ad, m, be, "T"))
            # incremental: split points around the rate
            for ad, m, s in [(0, 0, 0), (r + 1, 2 * r + 1, 1), (1, 2 * r + 1, r), (r, 2 * r, r + 1), (0, r - 1, r - 1), (3, 2 * r + 1, 0)]:
                qs.append(enc_query(alg, ad, m, be, "T", mode=2, split=s))
        if tier == "quick":
            # two shapes (full + partial blocks on both sides) on the remaining back ends, whose SnP macros differ; full grid: thorough / C09
            for be in ("direct", "generic", "x86asm"):
                qs.append(enc_query(alg, r + 1, r + 1, be, "T"))
                qs.append(enc_query(alg, r - 1, 2 * r + 1, be, "T"))
        ibackends = ["c64"] if tier == "quick" else ["c64", "direct", "generic", "x86asm"]
        for be in ibackends:
            for ad, m in [(0, 0), (r + 1, r - 1), (2 * r + 1, 2 * r)]:
                qs.append(enc_query(alg, ad, m, be, "I"))
        if tier == "thorough":
            qs.append(enc_query(alg, 0, 0, "c32", "I"))
    return qs
