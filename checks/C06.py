"""C06 - SIV and ISAP constructions, ISAP key persistence."""
from lib.vlib import Query
from checks.common import *

PROPERTY = "C06"
META = {
    "level": "model_checking",
    "functions": ["ascon{128,128a,80pq}_siv_encrypt", "ascon{128a,128,80pq}_isap_aead_{init,encrypt,decrypt,save_key,load_key}",
                  "isap _rekey/_encrypt/_mac (static, via the translation units)"],
    "bounds": "shape (algorithm, AD length, plaintext length, back end) concrete per query; key, nonce, AD, plaintext symbolic; ISAP runs "
              "~280-320 permutation calls per message, all abstracted (transcript form); key persistence from an ARBITRARY pre-computed key object",
    "outside": "lengths outside the grid, in particular payloads of 2^32 bytes and more (seed C06-2, a length narrowed to `unsigned` in a static SIV helper, is not detected)",
    "assumptions": ["transcript form composed with C08", "ISAP-A-80PQ is not in the ISAP v2.0 document; the model is the same scheme with k=160 as the property states"],
    "explanation": "lock-step transcript equivalence",
}
MANIFEST = {
    "text": "Bounded model checking: SIV encryption equals the two-pass construction of doc/siv.dox and ISAP encryption equals the ISAP v2.0 model "
            "(re-keying bit by bit) for every key, nonce, AD and plaintext at each grid shape and back end; save/load of a pre-computed ISAP key is the "
            "identity on an arbitrary key object and encrypt/decrypt leave the key object unchanged.",
    "note": "Trusted: CBMC/cadical, spec models validated against the repo's SIV and ISAP KAT files, lock-step composition (DESIGN 2.3).",
}


def q_siv(alg, ad, m, be, form="T", inplace=0):
    return Query("siv:%s:%s:%s:ad%d:m%d%s" % (ALGN[alg], be, form, ad, m, ":inplace" if inplace else ""), "harness/C06/siv.c",
                 repo_srcs=SIV_SRCS[alg] + AEAD_COMMON, backend=be, form=form,
                 defs={"ALG": alg, "ADLEN": ad, "MLEN": m, "MODE": 0, "INPLACE": inplace, "LS_MAX": siv_calls(alg, ad, m) + 1},
                 shape={"alg": ALGN[alg], "adlen": ad, "mlen": m, "inplace": inplace}, unwind=max(70, ad + 20, m + 20), timeout=1200)


def q_isap(alg, ad, m, be, form="T", mode=0, inplace=0):
    return Query("isap%s:%s:%s:%s:ad%d:m%d%s" % ("" if mode == 0 else "-keys", ISAPN[alg], be, form, ad, m, ":inplace" if inplace else ""),
                 "harness/C06/isap.c", repo_srcs=ISAP_SRCS[alg] + AEAD_COMMON, backend=be, form=form,
                 defs={"ALG": alg, "ADLEN": ad, "MLEN": m, "MODE": mode, "INPLACE": inplace, "LS_MAX": 2 * isap_calls(alg, ad, m) + 2},
                 shape={"alg": ISAPN[alg], "adlen": ad, "mlen": m, "mode": mode}, unwind=max(200, ad + 20, m + 20), timeout=1500)


def queries(tier):
    qs = []
    backends = ["c64", "c32"] if tier == "quick" else ["c64", "c32", "direct", "generic", "x86asm"]
    for alg in (0, 1, 2):
        r = aead_rate(alg)
        for be in backends:
            full = tier == "thorough" and be == "c64"
            grid = aead_grid(alg, "thorough" if full else "quick")
            if be != "c64":
                grid = [(0, 0), (r + 1, r + 1), (r, 2 * r + 1), (2 * r + 1, r - 1), (1, r), (0, 1)]
            for ad, m in grid:
                qs.append(q_siv(alg, ad, m, be))
            igrid = [(a, m) for a in L(8) for m in L(8)] if full else [(0, 0), (9, 9), (8, 17), (17, 7), (1, 8), (0, 1), (7, 16)]
            if be == "c32" and tier == "quick":
                igrid = [(9, 9)]
            for ad, m in igrid:
                qs.append(q_isap(alg, ad, m, be))
            if not (be == "c32" and tier == "quick"):
                qs.append(q_isap(alg, 3, 9, be, mode=5))
        qs.append(q_siv(alg, 1, r + 1, "c64", form="I"))
        if tier == "thorough":
            qs.append(q_siv(alg, 64, 100, "c64"))
            qs.append(q_isap(alg, 64, 100, "c64"))
    return qs
