"""C16 - re-entrancy through memory discipline (DESIGN 3 C16)."""
import os
import re
import subprocess
from lib import vlib
from lib.vlib import Query
from checks.common import *

PROPERTY = "C16"
META = {
    "level": "model_checking",
    "functions": ["every one-shot public function of the AEAD, SIV, ISAP, masked AEAD, hash/XOF, PRF/MAC, HMAC, KMAC, HKDF, PBKDF2, KDF families (store discipline)",
                  "symbol tables of the linked encodings of all library C sources, per back end configuration (writable static storage)"],
    "bounds": "store discipline: one call (encrypt + decrypt where applicable) per family at concrete small shapes, all data symbolic, permutation abstract; "
              "static storage: every static-lifetime symbol of every library translation unit in 6 configurations",
    "outside": "the interleavings themselves: CBMC 6.11 refuses pointer-dereferencing threads ('pointer handling for concurrency is unsound') and goto-instrument --race-check aborts on shared arrays "
               "(both probed); race freedom follows from the decided memory discipline by disjointness (argument, not query); libc internals",
    "assumptions": ["sufficient condition: (M2) the library has no writable static storage in the default configurations, so operations can only touch their arguments and their own frames; "
                    "(M3) no store into constant arguments; (M4) CBMC's pointer checks with exactly sized objects: every store hits an object passed in or a local",
                    "a write that restores the old value is not caught by post == pre (it is by the IR-level check of C11's instrumentation where that is built)"],
    "explanation": "schedules are discharged through the memory-discipline sufficient condition; the solver decides M3/M4 for all inputs, the encoding's symbol table decides M2",
}
MANIFEST = {
    "text": "Interleavings cannot be explored by the solver on this code (probed, see DESIGN 3 C16); decided instead for all inputs: no operation stores into the objects it takes as constant "
            "inputs (shared keys, pre-computed ISAP keys, masked keys, messages) and every store hits an argument object or a local (CBMC pointer checks on exactly sized objects); "
            "the symbol tables of the encodings contain no writable static-lifetime object of the library in the default configurations. Race freedom follows by disjointness.",
    "note": "The step from memory discipline to race freedom under every interleaving is an argument, not a query. Checker build's `acquired` flag and the thread-local PRNG of ascon-trng-none.c "
            "are configuration notes named by the property's anchors.",
    "category": "model_checking",
}
FAMS = {0: ("aead128", AEAD_SRCS[0] + AEAD_COMMON), 1: ("aead128a", AEAD_SRCS[1] + AEAD_COMMON), 2: ("aead80pq", AEAD_SRCS[2] + AEAD_COMMON),
        3: ("siv128", SIV_SRCS[0] + AEAD_COMMON), 4: ("isap128a", ISAP_SRCS[0] + AEAD_COMMON), 5: ("masked128", None),
        6: ("hash_xof", HASH_SRCS), 7: ("prf_mac", MAC_SRCS), 8: ("hmac", MAC_SRCS), 9: ("kmac", MAC_SRCS), 10: ("hkdf", KDF_SRCS), 11: ("pbkdf2", KDF_SRCS), 12: ("kdf", KDF_SRCS)}


def queries(tier):
    qs = []
    for be in (["c64", "c32"] if tier == "quick" else ["c64", "c32", "direct", "generic", "x86asm"]):
        for fam, (name, srcs) in FAMS.items():
            if fam == 4 and be not in ("c64", "x86asm") and tier == "quick":
                continue
            if fam == 5:
                if be == "x86asm":
                    srcs2, extra, parts = MASKED_AEAD_SRCS[0] + MASKED_COMMON, ["harness/common/trng_stub.c", "harness/common/lockstep_masked.c"], ["asm_masked_word"]
                else:
                    srcs2, extra, parts = MASKED_AEAD_SRCS[0] + MASKED_COMMON + [MASKED_WORD[be]], ["harness/common/trng_stub.c", "harness/common/lockstep_masked.c"], []
            else:
                srcs2, extra, parts = srcs, [], []
            q = Query("const_args:%s:%s" % (name, be), "harness/C16/const_args.c", repo_srcs=srcs2, extra_srcs=extra, backend=be, form="T",
                      defs={"FAM": fam, "LS_MAX": 700 if fam == 4 else 200}, shape={"family": name}, unwind=300, timeout=1200)
            q.asm_parts = parts
            qs.append(q)
            if fam == 5 and be == "c64":
                for malg, an in ((1, "masked128a"), (2, "masked80pq")):
                    q2 = Query("const_args:%s:%s" % (an, be), "harness/C16/const_args.c", repo_srcs=MASKED_AEAD_SRCS[malg] + MASKED_COMMON + [MASKED_WORD[be]], extra_srcs=extra, backend=be, form="T",
                               defs={"FAM": 5, "MALG": malg, "LS_MAX": 200}, shape={"family": an}, unwind=300, timeout=1200)
                    qs.append(q2)
    try:
        from checks import cpp_ir
        qs += cpp_ir.c16_queries(tier)
    except ImportError:
        pass
    return qs


def lib_c_sources():
    out = []
    for d in ("aead", "core", "hash", "isap", "kdf", "mac", "masking", "password", "random", "siv"):
        p = os.path.join(vlib.REPO, "src", d)
        for f in sorted(os.listdir(p)):
            if f.endswith(".c"):
                out.append(os.path.join("src", d, f))
    return out


def side_checks(tier, run_dir):
    """M2: writable static-lifetime objects in the linked encoding of the library, per configuration."""
    res = []
    for cfgname, defs in (("default-x86-64", []), ("c64", ["-DASCON_FORCE_C64"]), ("c32", ["-DASCON_FORCE_C32"]), ("direct-xor", ["-DASCON_FORCE_DIRECT_XOR"]),
                          ("generic", ["-DASCON_FORCE_GENERIC"]), ("generic+checker", ["-DASCON_FORCE_GENERIC", "-DASCON_CHECK_ACQUIRE_RELEASE"])):
        cfgdir = os.path.join(run_dir, "cfg-4-2-4")
        vlib.write_config(cfgdir, (4, 2, 4))
        gb = os.path.join(run_dir, "lib-%s.gb" % cfgname)
        cmd = ["goto-cc", "-DHAVE_CONFIG_H", "-D" + vlib.GUARD, "-I", cfgdir, "-I", os.path.join(vlib.REPO, "src")] + defs + \
              [os.path.join(vlib.REPO, s) for s in lib_c_sources()] + ["-o", gb]
        r = subprocess.run(cmd, capture_output=True, text=True)
        if r.returncode != 0:
            res.append({"name": "statics:" + cfgname, "ok": False, "kind": "encoding symbol table", "detail": "goto-cc failed: " + r.stderr[-400:]})
            continue
        st = subprocess.run(["goto-instrument", "--show-symbol-table", gb], capture_output=True, text=True).stdout
        writable, consts = [], 0
        for blk in st.split("\n\n"):
            m = re.search(r"^Symbol\.+: (.*)$", blk, re.M)
            t = re.search(r"^Type\.+: (.*)$", blk, re.M)
            fl = re.search(r"^Flags\.+: (.*)$", blk, re.M)
            loc = re.search(r"^Location\.+: (.*)$", blk, re.M)
            if not (m and t and fl and loc) or "static_lifetime" not in fl.group(1):
                continue
            if vlib.REPO + "/src" not in loc.group(1):
                continue
            if t.group(1).startswith("const ") or "is_type" in fl.group(1):
                consts += 1
            else:
                writable.append("%s (%s)" % (m.group(1), loc.group(1).split(" function")[0]))
        expected = ["acquired"] if "checker" in cfgname else []
        unexpected = [w for w in writable if not any(w.split(" ")[0].endswith(e) for e in expected)]
        res.append({"name": "statics:" + cfgname, "ok": not unexpected, "kind": "encoding symbol table (not a solver verdict)",
                    "detail": "writable static-lifetime objects of the library: %s; const tables: %d" % (writable or "none", consts)})
    # C++ sources: the object files' data/bss symbols (syntactic fallback, CBMC cannot parse libstdc++)
    objs = []
    cpp = os.path.join(vlib.REPO, "src", "cplusplus")
    bad = []
    for f in sorted(os.listdir(cpp)):
        if f.endswith(".cpp"):
            o = os.path.join(run_dir, f + ".o")
            r = subprocess.run(["g++", "-std=c++11", "-O2", "-c", "-DHAVE_CONFIG_H", "-I", os.path.join(run_dir, "cfg-4-2-4"), "-I", os.path.join(vlib.REPO, "src"),
                                os.path.join(cpp, f), "-o", o], capture_output=True, text=True)
            if r.returncode != 0:
                bad.append("%s: does not compile" % f)
                continue
            nm = subprocess.run(["nm", o], capture_output=True, text=True).stdout
            for line in nm.splitlines():
                p = line.split()
                if len(p) == 3 and p[1] in "dDbB":
                    bad.append("%s: %s" % (f, p[2]))
    res.append({"name": "statics:c++-objects", "ok": not bad, "kind": "object-file symbols (syntactic, not a solver verdict)",
                "detail": "writable data symbols: %s" % (bad or "none")})
    return res
