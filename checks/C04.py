"""C04 - PRF, PrfShort, MAC, HMAC, KMAC."""
from lib.vlib import Query
from checks.common import *

PROPERTY = "C04"
META = {
    "level": "model_checking",
    "functions": ["ascon_prf", "ascon_prf_fixed", "ascon_prf_short", "ascon_mac", "ascon_mac_verify", "ascon_prf_{fixed_init,absorb,squeeze}",
                  "ascon_hmac/ascon_hmaca (+_absorb_key, _finalize)", "ascon_kmac/ascon_kmaca (+_init, precomputed state)"],
    "bounds": "lengths concrete per query: PRF/MAC input L(32), output {0,1,15,16,17,32,33}; PrfShort every (inlen,outlen) in 0..16 x 0..16 "
              "(thorough; quick: boundary pairs) and the range check with fully symbolic 64-bit lengths; HMAC key {0,1,31,32,33,63,64,65,100} x message L(8); "
              "KMAC outlen {32 (precomputed), 0,16,31,33,64} x key {0,1,16,40} x custom {0,3,9} x message L(8) (quick: a cross-section). "
              "Keys, messages, customisation strings, presented tags symbolic. Fixed-length PRF through the incremental API: the declared output length is "
              "SYMBOLIC (every value below 2^29 in one query), first 17 output bytes compared.",
    "outside": "lengths not in the grid; declared fixed PRF lengths of 2^29 bytes and more (8*length does not fit the 32-bit IV field; the property does not say what they mean)",
    "assumptions": ["transcript form composed with C08"],
    "explanation": "lock-step transcript equivalence",
}
MANIFEST = {
    "text": "Bounded model checking of the PRF/MAC/HMAC/KMAC code against models of the ASCON-PRF paper, RFC 2104 and the documented KMAC "
            "construction for all keys/messages at each shape; mac_verify is proved to accept exactly the correct tag (symbolic presented tag); "
            "PrfShort's refusal is proved for all 2^128 pairs of lengths.",
    "note": "Trusted: CBMC/cadical, spec models validated against Prf/Mac/PrfShort/HMAC/HMACA/KMAC/KMACA KAT files; lock-step composition.",
}


def prechecks(tier, run_dir):
    return kat_precheck(run_dir, [("ASCON-Prf", "ASCON-Prf.txt"), ("ASCON-Mac", "ASCON-Mac.txt"), ("ASCON-PrfShort", "ASCON-PrfShort.txt"),
                                  ("ASCON-HMAC", "ASCON-HMAC.txt"), ("ASCON-HMACA", "ASCON-HMACA.txt"),
                                  ("ASCON-KMAC", "ASCON-KMAC.txt"), ("ASCON-KMACA", "ASCON-KMACA.txt")])


def q(mode, be, mlen, outlen=16, klen=16, clen=0, fam=0, form="T"):
    mn = {0: "prf", 1: "prf_fixed", 2: "mac", 3: "mac_verify", 4: "prf_short", 5: "prf_short_range", 6: "hmac", 7: "kmac", 8: "prf_fixed_declared"}[mode]
    name = "%s:%s:%s:m%d:o%d" % (mn, be, form, mlen, outlen)
    if mode in (6, 7):
        name += ":k%d:f%d" % (klen, fam)
    if mode == 7:
        name += ":c%d" % clen
    if mode <= 5 or mode == 8:
        n = 2 + mlen // 32 + (outlen + 15) // 16 + 2
    elif mode == 6:
        n = hmac_calls(klen, mlen) + 4
    else:
        n = xof_calls(klen + mlen, outlen, clen, 4) + 4
    return Query(name, "harness/C04/mac.c", repo_srcs=MAC_SRCS, backend=be, form=form,
                 defs={"MODE": mode, "MLEN": mlen, "OUTLEN": outlen, "KLEN": klen, "CLEN": clen, "FAM": fam, "LS_MAX": n},
                 shape={"fn": mn, "mlen": mlen, "outlen": outlen, "keylen": klen, "customlen": clen, "family": fam},
                 unwind=max(200, mlen + 80, klen + 80), timeout=1500)


def queries(tier):
    qs = []
    backends = ["c64", "c32"] if tier == "quick" else ["c64", "c32", "direct", "generic", "x86asm"]
    for be in backends:
        full = tier == "thorough" and be == "c64"
        for m in L(32):
            for o in ([0, 1, 15, 16, 17, 32, 33] if full or m == 33 else [17]):
                qs.append(q(0, be, m, outlen=o))
            qs.append(q(1, be, m, outlen=17))
            qs.append(q(2, be, m))
            qs.append(q(3, be, m))
        pairs = [(i, o) for i in range(17) for o in range(17)] if full else [(0, 0), (0, 16), (16, 16), (16, 0), (1, 15), (7, 9), (15, 1), (8, 8)]
        for i, o in pairs:
            qs.append(q(4, be, i, outlen=o))
        qs.append(q(5, be, 0, outlen=16))
        for m in ([33] if tier == "quick" else [0, 33]):
            qs.append(q(8, be, m, outlen=17))       # declared fixed length symbolic (all values < 2^29): seed C04-7
        for fam in (0, 1):
            klens = [0, 1, 31, 32, 33, 63, 64, 65, 100] if (tier == "thorough" or be == "c64") else [0, 64, 65]
            for k in klens:
                for m in (L(8) if full else [9]):
                    qs.append(q(6, be, m, outlen=32, klen=k, fam=fam))
            for m in L(8):
                qs.append(q(6, be, m, outlen=32, klen=20, fam=fam))
            if full:
                kgrid = [(o, k, c, m) for o in [32, 0, 16, 31, 33, 64] for k in [0, 1, 16, 40] for c in [0, 3, 9] for m in [0, 9]]
            else:
                kgrid = [(32, 16, 0, 9), (32, 40, 3, 8), (32, 0, 9, 0), (0, 16, 3, 9), (16, 1, 0, 7), (31, 16, 9, 1), (33, 40, 0, 17), (64, 16, 3, 16), (32, 16, 8, 9)]
            for o, k, c, m in kgrid:
                qs.append(q(7, be, m, outlen=o, klen=k, clen=c, fam=fam))
    for be in (["c64"] if tier == "quick" else ["c64", "c32", "direct", "x86asm"]):
        qs.append(q(2, be, 33, form="I"))
        qs.append(q(4, be, 7, outlen=9, form="I"))
        if tier == "thorough":
            qs.append(q(7, be, 1, outlen=32, klen=1, fam=0, form="I"))      # ~200 s
        qs.append(q(7, be, 1, outlen=32, klen=1, fam=1, form="I"))
    return qs
