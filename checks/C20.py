"""C20 - hex codec and the non-STL byte_array."""
from lib.vlib import Query

PROPERTY = "C20"
META = {
    "level": "model_checking",
    "functions": ["ascon_bytes_to_hex", "ascon_bytes_from_hex",
                  "ascon::bytes_from_hex(const char*, size_t) in both configurations (std::vector and ASCON_NO_STL), clang++ -O2 IR translated by enc/llvm/ll2c.py",
                  "ascon::byte_array (ASCON_NO_STL): constructors, destructor, operator=, operator[] (const and non-const), size, empty, data, reserve, resize, clear, "
                  "push_back, pop_back, detach, cmp and the six comparison operators (src/ascon/utility.h, src/cplusplus/ascon-byte-array.cpp, same route)"],
    "bounds": "decoder: every string of 0..8 characters (thorough 0..10), all 256 values per character, output space symbolic 0..8 bytes in an exactly sized heap object; "
              "encoder: 0..6 bytes, symbolic output space 0..2n+3; round trip 0..8 bytes; C++ helper: every string of 0..6 (thorough 0..8) characters; "
              "byte_array: ONE operation (each of 12, with solver-chosen operands) from an ARBITRARY state satisfying the representation invariant - three variables in each "
              "of the 8 sharing patterns (up to renaming of variables and buffers), per buffer symbolic size 0..4, symbolic capacity max(size,1)..5, symbolic contents, "
              "ref = number of sharers - after which all observers equal a std::vector value model AND the invariant holds again; that inductive step covers operation "
              "sequences of any length on up to three aliased values; the model is itself checked against libstdc++'s std::vector through the same driver and translator",
    "outside": "strings longer than 10 characters; inlen*2+1 overflowing size_t in the encoder (no such buffer exists); byte_array sizes above 4 / capacities above 5 in the pre-state "
               "(the operation may grow them), more than three variables alive at once, iterators (begin/end are data() + size()), allocation failure; "
               "the Arduino `String` overloads of bytes_to_hex",
    "assumptions": ["malloc / operator new succeed (allocation failure is not in scope)",
                    "byte_array_private layout {ref, size, capacity, data} on LP64, checked by the byte_array:layout-canary query against the real constructor",
                    "pre-states with capacities that are not multiples of 16 are admitted although the code only creates multiples of 16 (over-approximation of the reachable states)"],
    "explanation": "bounded model checking against a reference decoder; exact objects make any stray write a bounds violation; data-structure operations as one inductive step "
                   "from an arbitrary valid state",
}
MANIFEST = {
    "text": "Bounded model checking (CBMC/cadical) of the C hex codec against a reference decoder/encoder for all strings up to the bound with a symbolic output-space size; "
            "the C++ helper (both configurations) and the ASCON_NO_STL byte_array are compiled by clang++ to LLVM IR, translated to C and decided the same way: the helper "
            "against the C decoder, the byte_array as one operation from an arbitrary reference-counted sharing state against a std::vector value model, with the "
            "representation invariant re-established (inductive step), memory safety included.",
    "note": "Trusted: CBMC/cadical; clang-14 as the C++ front end; the IR-to-C translator. The value model is validated against libstdc++'s std::vector in the same run.",
    "technique": "bounded model checking with CBMC/cadical (C directly; C++ through LLVM IR translated to C), inductive step over an arbitrary valid data-structure state",
}


def queries(tier):
    qs = []
    src = ["src/core/ascon-hex.c"]
    for n in range(0, 9 if tier == "quick" else 11):
        qs.append(Query("decode:in%d:symout" % n, "harness/C20/hex.c", repo_srcs=src, backend="c64", with_backend=False, with_spec=False,
                        defs={"KIND": 0, "INLEN": n, "SYMOUT": None, "OUTCAP": 8}, shape={"chars": n, "outlen": "symbolic 0..8"}, unwind=30, timeout=900))
    for n in range(0, 7):
        qs.append(Query("encode:n%d:symout" % n, "harness/C20/hex.c", repo_srcs=src, backend="c64", with_backend=False, with_spec=False,
                        defs={"KIND": 1, "NB": n, "SYMOUT": None}, shape={"bytes": n, "outlen": "symbolic"}, unwind=30, timeout=600))
    for n in range(0, 9):
        qs.append(Query("roundtrip:n%d" % n, "harness/C20/hex.c", repo_srcs=src, backend="c64", with_backend=False, with_spec=False,
                        defs={"KIND": 2, "NB": n}, shape={"bytes": n}, unwind=40, timeout=600))
    try:
        from checks import cpp_ir
        qs += cpp_ir.c20_queries(tier)
    except ImportError:
        pass
    return qs
