"""C20 - hex codec and the non-STL byte_array."""
from lib.vlib import Query

PROPERTY = "C20"
META = {
    "level": "model_checking",
    "functions": ["ascon_bytes_to_hex", "ascon_bytes_from_hex", "ascon::bytes_from_hex / bytes_to_hex (IR route)", "ascon::byte_array (ASCON_NO_STL, IR route)"],
    "bounds": "decoder: every string of 0..8 characters (thorough 0..10), all 256 values per character, output space symbolic 0..8 bytes in an exactly sized heap object; "
              "encoder: 0..6 bytes, symbolic output space 0..2n+3; round trip 0..8 bytes",
    "outside": "strings longer than 10 characters; inlen*2+1 overflowing size_t in the encoder (no such buffer exists)",
    "assumptions": ["malloc succeeds (allocation failure is not in scope)"],
    "explanation": "bounded model checking against a reference decoder; exact objects make any stray write a bounds violation",
}
MANIFEST = {
    "text": "Bounded model checking of the C hex codec against a reference decoder/encoder for all strings up to the bound with a symbolic output-space size; "
            "the C++ helper and the NO_STL byte_array are decided on clang IR where the translator carries them.",
    "note": "Trusted: CBMC/cadical. C++ parts: the IR-to-C translator; see level_note in evidence for what it could carry.",
}


def queries(tier):
    qs = []
    src = ["src/core/ascon-hex.c"]
    for n in range(0, 9 if tier == "quick" else 11):
        qs.append(Query("decode:in%d:symout" % n, "harness/C20/hex.c", repo_srcs=src, backend="c64", with_backend=False, with_spec=False,
                        defs={"KIND": 0, "INLEN": n, "SYMOUT": None, "OUTCAP": 8}, shape={"chars": n, "outlen": "symbolic 0..8"}, unwind=30, timeout=900))
    for n in range(0, 7):
        qs.append(Query("encode:n%d:symout" % n, "harness/C20/hex.c", repo_srcs=src, backend="c64", with_backend=False, with_spec=False,
                        defs={"KIND": 1, "NB": n, "SYMOUT": None}, shape={"bytes": n, "outlen": "symbolic"}, unwind=30, timeout=600))
    for n in range(0, 9):
        qs.append(Query("roundtrip:n%d" % n, "harness/C20/hex.c", repo_srcs=src, backend="c64", with_backend=False, with_spec=False,
                        defs={"KIND": 2, "NB": n}, shape={"bytes": n}, unwind=40, timeout=600))
    try:
        from checks import cpp_ir
        qs += cpp_ir.c20_queries(tier)
    except ImportError:
        pass
    return qs
