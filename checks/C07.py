"""C07 - chunking, aliasing, copying, re-initialisation."""
from lib.vlib import Query
from checks.common import *

PROPERTY = "C07"
META = {
    "level": "model_checking",
    "functions": ["ascon_{xof,xofa}_{absorb,squeeze,copy,pad,reinit*}", "ascon_prf_{absorb,squeeze,reinit,fixed_reinit}", "ascon_{hash,hasha}_{update,copy,reinit}",
                  "ascon_{hmac,hmaca}_{update,reinit}", "ascon_{kmac,kmaca}_{absorb,squeeze,reinit}", "ascon_{kdf,kdfa}_{squeeze,reinit}",
                  "ascon_aead_{encrypt,decrypt}_{8,16}", "ascon{128,128a,80pq}_aead_{reinit,start,encrypt_block,decrypt_block}", "ascon_hkdf_expand (two calls = one call)"],
    "bounds": "two consecutive calls versus one call, from an ARBITRARY object state (sponge state symbolic; count/posn every value in range, one query each; "
              "phase 0/1), chunk lengths in {0,1,r-1,r,r+1,2r+1} (quick: a cross-section; thorough: full product for xof/xofa/prf and the AEAD block "
              "functions); in-place = same buffer for input and output; copies and re-initialisation from arbitrary objects; permutation abstract (both sides "
              "are the implementation, transcript form)",
    "outside": "chunk lengths beyond 2r+1 as a direct claim (the arbitrary-pre-state form is the inductive step for any number of calls; the induction itself is an argument)",
    "assumptions": ["pre-states range over count < rate of the phase (the values the code itself establishes: checked by the same queries on the post-state)"],
    "explanation": "implementation-vs-implementation lock-step equivalence from arbitrary pre-states",
}
MANIFEST = {
    "text": "Bounded model checking, inductive form: for every incremental interface, two calls from an arbitrary object state give the same bytes and the same "
            "final object as one call on the concatenation (all positions within a block, both phases), also with input and output in the same buffer; a copy "
            "continues like its original; re-initialising an arbitrary object equals initialising a fresh one. One-shot = incremental is covered with C01-C05.",
    "note": "Trusted: CBMC/cadical; lock-step composition; the step from 'two calls = one call from any state' to 'any partition' is induction (argument, not query).",
}
OBJN = {0: "xof", 1: "xofa", 2: "prf", 3: "hash", 4: "hasha", 5: "hmac", 6: "kmac", 7: "kmaca", 8: "kdf", 9: "kdfa",
        10: "enc8", 11: "enc16", 12: "dec8", 13: "dec16"}
SRCS = KDF_SRCS


def q(obj, op, be, count, mode0, al, bl, rnd=6, inplace=0):
    name = "%s:%s:%s:c%d:m%d:a%d:b%d" % ({0: "absorb2", 1: "squeeze2", 2: "copy", 3: "pad"}[op] if obj < 10 else "block2", OBJN[obj], be, count, mode0, al, bl)
    if inplace:
        name += ":inplace"
    rate = 16 if obj in (11, 13) else 8
    n = (al + bl) // (8 if obj != 2 else 16) + 8
    return Query(name, "harness/C07/chunk.c", repo_srcs=SRCS, backend=be, form="T",
                 defs={"OBJ": obj, "OP": op, "COUNT": count, "MODE0": mode0, "ALEN": al, "BLEN": bl, "ROUND": rnd, "INPLACE": inplace, "LS_MAX": n},
                 shape={"object": OBJN[obj], "op": op, "count": count, "phase": mode0, "alen": al, "blen": bl, "inplace": inplace},
                 unwind=max(70, al + bl + 10), timeout=900)


def qr(kind, be, fixlen=0):
    kn = ["hash", "hasha", "xof", "xofa", "xof_fixed", "xofa_fixed", "xof_custom", "xofa_custom", "prf", "prf_fixed", "kmac", "kmaca",
          "kdf", "kdfa", "hmac", "hmaca", "aead128", "aead128a", "aead80pq"][kind]
    srcs = SRCS + sum((AEAD_SRCS[a] for a in (0, 1, 2)), []) + ["src/aead/ascon-aead-util.c"]
    return Query("reinit:%s:%s:fix%d" % (kn, be, fixlen), "harness/C07/reinit.c", repo_srcs=srcs, backend=be, form="T",
                 defs={"KIND": kind, "FIXLEN": fixlen, "LS_MAX": 60}, shape={"object": kn, "declared": fixlen}, unwind=80, timeout=900)


def queries(tier):
    qs = []
    backends = ["c64", "c32"] if tier == "quick" else ["c64", "c32", "direct", "generic", "x86asm"]
    for be in backends:
        full = tier == "thorough" and be == "c64"
        lens8 = [0, 1, 7, 8, 9, 17]
        for obj in (0, 1):
            counts = range(8) if (full or be == "c64") else [0, 3, 7]
            for c in counts:
                pairs = [(a, b) for a in lens8 for b in lens8] if full else [(0, 9), (1, 7), (7, 1), (8, 8), (9, 0), (17, 9), (3, 17)]
                for a, b in pairs:
                    qs.append(q(obj, 0, be, c, 0, a, b))
                    qs.append(q(obj, 1, be, c, 1, a, b))
                for a, b in [(0, 9), (8, 8), (1, 17), (9, 7)]:
                    qs.append(q(obj, 1, be, c, 0, a, b))      # first squeeze pads
                qs.append(q(obj, 0, be, c, 1, 9, 8))          # absorb after squeezing
                qs.append(q(obj, 2, be, c, 0, 9, 17))
                qs.append(q(obj, 2, be, c, 1, 1, 9))
                qs.append(q(obj, 3, be, c, 0, 9, 0))
                qs.append(q(obj, 3, be, c, 1, 9, 0))
        for c in (range(32) if full else [0, 1, 15, 16, 17, 31]):
            for a, b in ([(0, 33), (1, 31), (31, 1), (32, 32), (33, 0), (65, 33)] if full else [(1, 31), (33, 32), (31, 34)]):
                qs.append(q(2, 0, be, c, 0, a, b))
        for c in (range(16) if full else [0, 1, 15]):
            for a, b in ([(0, 17), (1, 15), (15, 1), (16, 16), (17, 0), (33, 17)] if full else [(1, 15), (17, 16), (15, 18)]):
                qs.append(q(2, 1, be, c, 1, a, b))
        for a, b in [(0, 17), (17, 16)]:
            qs.append(q(2, 1, be, 5, 0, a, b))
        for obj in (3, 4, 5, 6, 7):
            for c in (0, 5):
                qs.append(q(obj, 0, be, c, 0, 7, 9))
        for obj in (3, 4):
            qs.append(q(obj, 2, be, 3, 0, 9, 0))
        for obj in (6, 7, 8, 9):
            for c in (0, 5):
                qs.append(q(obj, 1, be, c, 1, 7, 9))
        for obj in (10, 11, 12, 13):
            r = 16 if obj in (11, 13) else 8
            rnd = 4 if r == 16 else 6
            lens = [0, 1, r - 1, r, r + 1, 2 * r + 1]
            counts = range(r) if (full or be == "c64") else [0, 1, r - 1]
            for c in counts:
                pairs = [(a, b) for a in lens for b in lens] if full else [(0, r + 1), (1, r - 1), (r - 1, 1), (r, r), (r + 1, 0), (2 * r + 1, r + 1), (3, 2 * r + 1)]
                for a, b in pairs:
                    qs.append(q(obj, 0, be, c, 0, a, b, rnd=rnd))
                for a, b in [(1, r - 1), (r, r + 1), (2 * r + 1, 3)]:
                    qs.append(q(obj, 0, be, c, 0, a, b, rnd=rnd, inplace=1))
        for kind in range(19):
            fls = [17] if kind in (4, 5, 6, 7, 9, 10, 11, 12, 13) else [0]
            if kind in (4, 5):
                fls = [0, 32, 17]
            if kind in (10, 11):
                fls = [32, 17]
            for fl in fls:
                qs.append(qr(kind, be, fl))
    return qs
