"""C15 - PRNG: deterministic in its entropy, forward secure, reseeds, reports status."""
from lib.vlib import Query
from checks.common import *

PROPERTY = "C15"
SRCS = HASH_SRCS + ["src/random/ascon-prng.c", "src/random/ascon-random.c"]
META = {
    "level": "model_checking",
    "functions": ["ascon_random_{init,fetch,feed,reseed,save_seed,load_seed}", "ascon_random_rekey (static)", "ascon_random"],
    "bounds": "operations from scratch (init; fetch) and from an ARBITRARY generator state (sponge state symbolic; reseed counter in the classes {0, 16383, 16384, 2^32-1}); "
              "sizes {0,1,8,9,32,40}; every byte returned by the system source and every health flag symbolic; storage callback results symbolic (all int values); "
              "the reseed rule additionally for ALL 2^32 counter values x ALL 2^64 request sizes with the sponge operations stubbed",
    "outside": "sequences longer than two operations as a direct claim (covered through the arbitrary pre-state); the real system source (getrandom etc.) and thread-local global PRNG of ascon-trng-none.c",
    "assumptions": ["system source modelled as: 32 arbitrary bytes + arbitrary int per call", "storage callbacks modelled as returning arbitrary ints",
                    "transcript form composed with C08", "pre-states between operations have count == 0, phase absorb (established by every operation: asserted on the post-state)"],
    "explanation": "lock-step transcript equivalence against a SpongePRNG model, whole object compared after every call",
}
MANIFEST = {
    "text": "Bounded model checking against a SpongePRNG model: outputs, the complete generator object and the reseed counter equal the model's after init/fetch/feed/reseed/save/load "
            "for every byte the system source returns and every health flag; the last step of every operation is a permutation of a state whose rate was just zeroed; the reseed rule "
            "holds for all counters and all sizes; status results are compared with the header documentation for every callback return value.",
    "note": "Trusted: CBMC/cadical, the model (written from the comments of ascon-prng.c and random.h), lock-step composition.",
}


def q(kind, be, n1, counter=0, count=0, mode0=0, form="T"):
    kn = {0: "init_fetch", 1: "fetch", 2: "feed", 3: "reseed", 4: "ascon_random", 5: "save_seed", 6: "load_seed"}[kind]
    name = "%s:%s:%s:n%d:ctr%d:c%d:m%d" % (kn, be, form, n1, counter, count, mode0)
    return Query(name, "harness/C15/prng.c", repo_srcs=SRCS, backend=be, form=form,
                 defs={"KIND": kind, "N1": n1, "COUNTER": "%dU" % counter, "COUNT": count, "MODE0": mode0, "LS_MAX": 40 + 2 * (n1 // 8)},
                 shape={"op": kn, "size": n1, "reseed_counter": counter, "pre_count": count, "pre_phase": mode0}, unwind=80, timeout=900)


def queries(tier):
    qs = [Query("reseed_rule:all_counters_all_sizes", "harness/C15/reseed_rule.c", repo_srcs=["src/random/ascon-prng.c"], backend="c64",
                with_backend=False, with_spec=False, unwind=10, timeout=300, shape={"counter": "symbolic 2^32", "outlen": "symbolic 2^64"})]
    for be in (["c64", "c32"] if tier == "quick" else ["c64", "c32", "direct", "generic", "x86asm"]):
        sizes = [0, 1, 8, 9, 32, 40]
        for n in sizes:
            qs.append(q(0, be, n))
            for ctr in ([0, 16384] if tier == "quick" and n not in (9,) else [0, 16383, 16384, 0xffffffff]):
                qs.append(q(1, be, n, counter=ctr))
            qs.append(q(2, be, n))
        for n in (0, 1, 32, 33):
            qs.append(q(4, be, n))
        qs.append(q(3, be, 0))
        qs.append(q(3, be, 0, counter=16384))
        qs.append(q(5, be, 0))
        qs.append(q(6, be, 0))
        # robustness: also from states that are not on a block boundary / in the squeeze phase
        for (c, m0) in [(3, 0), (0, 1), (5, 1)]:
            qs.append(q(1, be, 9, count=c, mode0=m0))
            qs.append(q(2, be, 9, count=c, mode0=m0))
            qs.append(q(3, be, 0, count=c, mode0=m0))
    qs.append(q(4, "c64", 1, form="I"))
    return qs
