"""C13 - freed, cleared and destroyed objects retain nothing."""
import os
from lib import vlib
from lib.vlib import Query
from checks.common import *

PROPERTY = "C13"
OBJS = {0: "permutation_state", 1: "aead128_state", 2: "aead128a_state", 3: "aead80pq_state", 4: "xof", 5: "xofa", 6: "hash", 7: "hasha", 8: "prf",
        9: "hmac", 10: "hmaca", 11: "kmac", 12: "kmaca", 13: "kdf", 14: "kdfa", 15: "hkdf", 16: "hkdfa", 17: "random", 18: "isap128a_key", 19: "isap128_key",
        20: "isap80pq_key", 21: "masked_key_128", 22: "masked_key_160", 23: "masked_state"}
ALLSRC = KDF_SRCS + sum((AEAD_SRCS[a] for a in (0, 1, 2)), []) + ["src/aead/ascon-aead-util.c"] + sum((ISAP_SRCS[a] for a in (0, 1, 2)), []) + \
    ["src/random/ascon-prng.c", "src/random/ascon-random.c", "src/masking/ascon-masked-key.c", "src/masking/ascon-masked-state.c"]
META = {
    "level": "model_checking",
    "functions": ["ascon_free (3 SnP back ends)", "ascon{128,128a,80pq}_aead_free", "ascon_{xof,xofa,hash,hasha,prf,hmac,hmaca,kmac,kmaca,kdf,kdfa,hkdf,hkdfa,random}_free",
                  "ascon{128a,128,80pq}_isap_aead_free", "ascon_masked_key_{128,160}_free", "ascon_masked_state_free", "ascon_clean (three #if branches)",
                  "second pass on clang -O3 IR (wipe not elided) and C++ destructors/clear(): IR route"],
    "bounds": "object bytes fully symbolic (= every history of operations), one call; every named field compared with zero; all 5 back end configurations; ascon_clean for sizes {0,1,16,40,160}",
    "outside": "padding bytes of the structs; gcc's own optimiser (the IR pass uses clang -O3 as proxy); stack temporaries (not part of the property)",
    "assumptions": ["explicit_bzero / memset_s modelled by their contract (bytes become zero, call may not be elided)", "ascon_random_state_t.reserved is not secret-derived (set to 0 by init, never written) and is excluded"],
    "explanation": "bounded model checking from an arbitrary object",
}
MANIFEST = {
    "text": "Bounded model checking from an arbitrary (fully symbolic) object of every state type: after the free/clear call every named byte is zero, on every back end; "
            "ascon_clean itself on each of its preprocessor branches; the optimised-build claim is decided on clang -O3 IR (stores of the wipe still present) where the IR route is built.",
    "note": "Trusted: CBMC/cadical; contract stubs for explicit_bzero/memset_s. gcc's machine code is out of reach; clang -O3 IR is the proxy for 'the compiler must not elide the wipe'.",
}


def queries(tier):
    qs = []
    for be in (["c64", "c32", "generic"] if tier == "quick" else ["c64", "c32", "direct", "generic", "generic_check", "x86asm"]):
        for obj, name in OBJS.items():
            if be == "generic_check" and name == "permutation_state":
                continue    # ascon_free() of a state that was never acquired aborts by design in the checker build (harness end unreachable)
            srcs = list(ALLSRC)
            qs.append(Query("wipe:%s:%s" % (name, be), "harness/C13/wipe.c", repo_srcs=srcs, extra_srcs=["harness/common/trng_stub.c"] if obj >= 21 else [],
                            backend=be, form="I", defs={"OBJ": obj}, shape={"object": name}, unwind=400, timeout=600))
    for variant, cc in (("explicit_bzero", []), ("memset_s", ["-UHAVE_CONFIG_H", "-DHAVE_MEMSET_S", "-DVERIF_MEMSET_S", "-include", os.path.join(vlib.VERIF, "harness/C13/memset_s_decl.h")]), ("volatile_loop", ["-UHAVE_CONFIG_H"])):
        for n in (0, 1, 16, 40, 160):
            qs.append(Query("ascon_clean:%s:n%d" % (variant, n), "harness/C13/wipe.c", backend="c64", with_backend=False, with_spec=False,
                            repo_srcs=["src/core/ascon-clean.c"], extra_srcs=["harness/C13/clean_variants.c"], defs={"OBJ": 24, "NBYTES": n, "CLEAN_VARIANT_" + variant: 1},
                            cc_flags=cc, shape={"variant": variant, "bytes": n}, unwind=200, timeout=300))
    # second pass on the optimised build: clang -O3 IR of the units that contain the wipes (wipe not elided)
    from lib import irgen
    IR_UNITS = ["src/aead/ascon-aead-inc-128.c", "src/aead/ascon-aead-inc-128a.c", "src/aead/ascon-aead-inc-80pq.c", "src/hash/ascon-xof.c", "src/hash/ascon-xofa.c",
                "src/hash/ascon-hash.c", "src/hash/ascon-hasha.c", "src/mac/ascon-prf.c", "src/mac/ascon-hmac.c", "src/mac/ascon-hmaca.c", "src/mac/ascon-kmac.c", "src/mac/ascon-kmaca.c",
                "src/kdf/ascon-kdf.c", "src/kdf/ascon-kdfa.c", "src/kdf/ascon-hkdf.c", "src/kdf/ascon-hkdfa.c", "src/random/ascon-prng.c", "src/isap/ascon-isap-128.c",
                "src/isap/ascon-isap-128a.c", "src/isap/ascon-isap-80pq.c", "src/masking/ascon-masked-key.c", "src/masking/ascon-masked-state.c", "src/core/ascon-clean.c"]

    def gen_ir(run_dir, q):
        snp = {"c64": "src/core/ascon-sliced64.c", "c32": "src/core/ascon-sliced32.c", "generic": "src/core/ascon-direct-xor.c"}[q.backend]
        return irgen.ir_c_source(run_dir, "wipe", IR_UNITS + [snp], backend=q.backend, opt="-O3", pair=False)
    for be in (["c64"] if tier == "quick" else ["c64", "c32", "generic"]):
        for obj, name in OBJS.items():
            qs.append(Query("wipe-O3ir:%s:%s" % (name, be), "harness/C13/wipe.c", extra_srcs=["harness/common/ir_env.c", "harness/common/trng_stub.c"], backend=be, form="I",
                            with_backend=False, gen_srcs=[gen_ir], defs={"OBJ": obj, "IRPASS": None}, shape={"object": name, "ir": "clang -O3"}, unwind=400, timeout=600))
    try:
        from checks import cpp_ir
        qs += cpp_ir.c13_queries(tier)
    except ImportError:
        pass
    return qs
