"""C02 - decryption inverts, rejects, wipes (functional biconditional, DESIGN 3 C02)."""
from lib.vlib import Query
from checks.common import *

PROPERTY = "C02"
META = {
    "level": "model_checking",
    "functions": ["ascon{128,128a,80pq}_aead_decrypt", "ascon{128,128a,80pq}_aead_decrypt_block/_decrypt_finalize",
                  "ascon{128,128a,80pq}_siv_decrypt", "ascon{128a,128,80pq}_isap_aead_decrypt",
                  "ascon{128,128a,80pq}_masked_aead_decrypt", "ascon_aead_check_tag", "ascon_aead_decrypt_8/16"],
    "bounds": "shape (algorithm, AD length, ciphertext length, split, back end) concrete per query; key, nonce, AD, ciphertext, presented tag and "
              "prior plaintext buffer symbolic and unconstrained; clen < 16 guard for every clen 0..15; check_tag for every size 0..16 x plaintext 0..5",
    "outside": "the cryptographic statement that no second tag/ciphertext collides (not a property of the code); lengths outside the grid, in particular inputs of 2^32 bytes and more",
    "assumptions": ["decided statement: decrypt returns 0 iff presented tag == Tag_spec(key,nonce,AD,c); plaintext == spec plaintext on success, "
                    "all-zero on failure; this subsumes every bit flip / truncation / extension case relative to the specification's tag function",
                    "transcript form (permutation as free function) composed with C08"],
    "explanation": "lock-step transcript equivalence with symbolic tag",
}
MANIFEST = {
    "text": "Bounded model checking of every one-shot and incremental decryptor: for all keys, nonces, AD, ciphertexts and presented tags at each shape "
            "of the grid the result is 0 exactly when the tag equals the specification's tag for that input, the plaintext equals the specification's "
            "on success and is all zero on failure, inputs shorter than 16 bytes are refused without any write; ascon_aead_check_tag is proved exact over all tag pairs.",
    "note": "The literal 'any modification is rejected' is cryptographic (no collision exists) and cannot be a solver claim; the functional biconditional "
            "against the specification's tag function is decided instead. Trusted: CBMC/cadical, spec models (KAT-validated), lock-step composition.",
}


def dec_query(fam, alg, ad, m, be, form="T", mode=1, split=0, inplace=0, short=None):
    if fam == "aead":
        h, srcs, n, an = "harness/C01/aead.c", AEAD_SRCS[alg] + AEAD_COMMON, aead_calls(alg, ad, m), ALGN[alg]
    elif fam == "siv":
        h, srcs, n, an = "harness/C06/siv.c", SIV_SRCS[alg] + AEAD_COMMON, siv_calls(alg, ad, m), ALGN[alg]
    else:
        h, srcs, n, an = "harness/C06/isap.c", ISAP_SRCS[alg] + AEAD_COMMON, isap_calls(alg, ad, m), ISAPN[alg]
    name = "%s:%s:%s:%s:%s:ad%d:m%d" % ({1: "dec", 3: "incdec", 4: "short"}[mode], fam, an, be, form, ad, m)
    defs = {"ALG": alg, "ADLEN": ad, "MLEN": m, "MODE": mode, "SPLIT": split, "INPLACE": inplace, "LS_MAX": n + 1}
    if mode == 3:
        name += ":s%d" % split
    if mode == 4:
        name += ":short%d" % short
        defs["SHORT"] = short
    if inplace:
        name += ":inplace"
    return Query(name, h, repo_srcs=srcs, backend=be, form=form, defs=defs,
                 shape={"family": fam, "alg": an, "adlen": ad, "mlen": m, "mode": mode, "split": split, "inplace": inplace, "short": short},
                 unwind=max(200, ad + 20, m + 20), timeout=1200)


def queries(tier):
    qs = []
    for size in range(0, 17):
        for plen in ([0, 5] if tier == "quick" else range(0, 6)):
            qs.append(Query("check_tag:size%d:p%d" % (size, plen), "harness/C02/check_tag.c", repo_srcs=["src/aead/ascon-aead-common.c"],
                            backend="c64", form="I", defs={"SIZE": size, "PLEN": plen}, shape={"size": size, "plen": plen}, unwind=40, timeout=300))
    backends = ["c64", "c32"] if tier == "quick" else ["c64", "c32", "direct", "generic", "x86asm"]
    for alg in (0, 1, 2):
        r = aead_rate(alg)
        for be in backends:
            full = tier == "thorough" and be == "c64"
            grid = aead_grid(alg, "thorough" if full else "quick")
            if tier == "quick" and be != "c64":
                grid = [(0, 0), (r + 1, r + 1), (r, 2 * r + 1), (2 * r + 1, r - 1)]
            for ad, m in grid:
                qs.append(dec_query("aead", alg, ad, m, be))
            for ad, m, s in [(0, 0, 0), (r + 1, 2 * r + 1, 1), (1, 2 * r + 1, r), (r, 2 * r, r + 1), (0, r - 1, r - 1)]:
                qs.append(dec_query("aead", alg, ad, m, be, mode=3, split=s))
            sgrid = grid if full else [(0, 0), (r + 1, r + 1), (r, 2 * r + 1), (2 * r + 1, r - 1), (1, r), (0, 1)]
            for ad, m in sgrid:
                qs.append(dec_query("siv", alg, ad, m, be))
            igrid = [(0, 0), (9, 9), (8, 17), (17, 7), (1, 8), (0, 1)] if not full else [(a, m) for a in L(8) for m in L(8)]
            if be == "c32" and tier == "quick":
                igrid = [(9, 9)]          # ISAP on the bit-sliced layout costs ~260 s per shape (layout model inside 300 permutation stubs)
            for ad, m in igrid:
                qs.append(dec_query("isap", alg, ad, m, be))
        if tier == "quick":
            # one full-block + partial-block AEAD shape on the remaining back ends (their SnP macros differ: seed C02-7); the full grid is thorough / C09
            for be in ("direct", "generic", "x86asm"):
                qs.append(dec_query("aead", alg, r + 1, r + 1, be))
                qs.append(dec_query("aead", alg, r, 2 * r + 1, be))
        for fam in ("aead", "siv", "isap"):
            for short in ([0, 15] if tier == "quick" else range(0, 16)):
                qs.append(dec_query(fam, alg, 3, 0, "c64", mode=4, short=short))
        # integrated form (real permutation inside)
        for be in (["c64"] if tier == "quick" else ["c64", "direct", "x86asm"]):
            qs.append(dec_query("aead", alg, r + 1, r - 1, be, form="I"))
            qs.append(dec_query("siv", alg, 1, r + 1, be, form="I"))
    return qs
