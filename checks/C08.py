"""C08 - permutation and byte-range primitives on every host back end."""
from lib.vlib import Query

PROPERTY = "C08"
C_BACKENDS = ["c64", "c32", "direct", "generic"]
OPS = {0: "add", 1: "overwrite", 2: "zero", 3: "extract", 4: "extract_and_add",
       5: "extract_and_overwrite", 6: "extract_and_overwrite_inplace", 7: "init", 8: "copy"}
PAIRS_QUICK = [(0, 0), (0, 1), (0, 8), (0, 40), (3, 7), (7, 2), (8, 8), (5, 35), (39, 1), (40, 0), (13, 20), (1, 39)]

META = {
    "level": "model_checking",
    "functions": ["src/core/ascon-c64.c:ascon_permute", "src/core/ascon-c32.c:ascon_permute",
                  "src/core/ascon-sliced64.c:*", "src/core/ascon-sliced32.c:*", "src/core/ascon-direct-xor.c:*",
                  "src/core/ascon-sliced32.h (bit interleave macros)", "src/core/ascon-asm-x86-64.S:ascon_permute (via enc/asm executor)"],
    "bounds": "start round concrete 0..12 (one query each); state fully symbolic (2^320); byte-range operations: "
              "quick = 12 concrete boundary (offset,size) pairs, thorough = symbolic (offset,size) over all 861 pairs with offset+size<=40; "
              "data and prior output contents symbolic; loops fully unwound with unwinding assertions",
    "outside": "offset+size > 40 (documented precondition); machine code gcc emits for the C back ends",
    "assumptions": ["layout model of lockstep.c (checked against the byte interface by the VIA=1 permutation queries and every bytes query)",
                    "explicit_bzero modelled as memset (harness/common/libc_stubs.c)",
                    "heap buffers of symbolic size: malloc assumed to succeed (allocation failure is not in scope of C08)"],
    "explanation": "bounded model checking of the real C sources against spec/spec.c; all states symbolic",
}


def queries(tier):
    qs = []
    backends = C_BACKENDS + ["x86asm"]
    qs.append(Query("sbox:table-vs-sliced", "harness/C08/sbox.c", with_backend=False, backend="c64",
                    shape={"what": "oracle self-consistency"}, timeout=300))
    for be in backends:
        # start rounds 0..11 are the property's domain; 12 (no rounds) is what library callers may also pass.  Larger values are
        # outside the documented domain (the c32 code forms a pointer past its constant table for them), so they are not demanded.
        rounds = list(range(0, 13))
        for r in rounds:
            vias = [0]
            if tier == "thorough" or r in (0, 4, 6, 11, 12):
                vias.append(1)
            for via in vias:
                qs.append(Query("permute:%s:r%d:via%d" % (be, r, via), "harness/C08/permute.c", backend=be, form="I",
                                defs={"ROUND": r, "VIA": via}, shape={"first_round": r, "via_bytes": via},
                                timeout=900, unwind=70))
        for op, opname in OPS.items():
            if tier == "thorough":
                if op in (7, 8):
                    qs.append(Query("bytes:%s:%s" % (be, opname), "harness/C08/bytes.c", backend=be, form="I",
                                    defs={"OP": op, "OFF": 0, "SIZE": 0}, shape={"op": opname}, unwind=70))
                elif be == "c32":
                    # a symbolic (offset, size) on the bit-interleaved 32-bit layout exhausts 16 GB without a verdict:
                    # the same 861 pairs are enumerated as concrete queries instead (state and data stay symbolic)
                    have = set(PAIRS_QUICK)
                    for off in range(0, 41):
                        for size in range(0, 41 - off):
                            if (off, size) not in have:
                                qs.append(Query("bytes:%s:%s:o%d:s%d" % (be, opname, off, size), "harness/C08/bytes.c", backend=be, form="I",
                                                defs={"OP": op, "OFF": off, "SIZE": size}, shape={"op": opname, "offset": off, "size": size},
                                                unwind=70, timeout=300))
                else:
                    qs.append(Query("bytes:%s:%s:sym" % (be, opname), "harness/C08/bytes.c", backend=be, form="I",
                                    defs={"OP": op, "SYMBOLIC": None}, shape={"op": opname, "offset,size": "symbolic, all 861 pairs"},
                                    timeout=1800, unwind=70, mem_gb=16))
            pairs = [(0, 0)] if op in (7, 8) else PAIRS_QUICK
            for off, size in pairs:
                qs.append(Query("bytes:%s:%s:o%d:s%d" % (be, opname, off, size), "harness/C08/bytes.c", backend=be, form="I",
                                defs={"OP": op, "OFF": off, "SIZE": size}, shape={"op": opname, "offset": off, "size": size},
                                unwind=70, timeout=300))
    return qs

MANIFEST = {
    "text": "Bounded model checking of the real back-end sources: for every concrete start round one query proves the permutation equal to "
            "the specification for all 2^320 states; the byte-range primitives are proved equal to a byte-array model for symbolic state and "
            "data at concrete boundary (offset,size) pairs (quick) and for symbolic (offset,size) over all 861 pairs (thorough). Every back end "
            "buildable on the host: x86-64 assembly (through the assembly executor), 64-bit C, 32-bit sliced C, direct-XOR, generic.",
    "note": "Trusted: CBMC/cadical, goto-cc's C semantics, spec/spec.c (validated against the repo KATs and, for the S-box, against the paper's table "
            "by a solver query), the layout model in harness/common/lockstep.c, the assembly executor for the .S file (self-validated against the "
            "assembled original on random states). Outside: machine code emitted by gcc for the C back ends.",
    "design_ref": "DESIGN.md 3 C08, 2.1, 2.6",
}
