"""C19 - command-line tools: round trip, tamper detection, loud failure on I/O errors (unit level, environment modelled)."""
import os
from lib import vlib
from lib.vlib import Query

PROPERTY = "C19"
META = {
    "level": "model_checking",
    "functions": ["apps/asconcrypt/asconcrypt.c: encrypt_file, decrypt_file, generate_password, read_keyfile, is_encrypted_filename, strip_suffix, add_suffix",
                  "apps/asconcrypt/fileops.c: safe_file_{open_read,open_write,read,write,close,delete}", "apps/asconsum/asconsum.c: hash_file, check_file, to_hex_digit, *_file read loops",
                  "apps/asconcrypt/asconcrypt.c: main() driven with `MODE -p PASSWORD -o out in` (getopt modelled): password acquisition, key derivation from the whole password, exit status, wipe"],
    "bounds": "file sizes {0,1,15,16,17,31,32,33,48,63,64,65,69} with the I/O buffer scaled to 32 bytes (BUFSIZ redefinition; the logic is size-generic); contents, passwords, file names symbolic; "
              "every read/write/open and the random source may fail under a symbolic fault schedule (hard error, EINTR/EAGAIN, short transfer, zero-length write)",
    "outside": "asconsum check mode: well-formed lines are decided for two concrete digit patterns (every digit, both cases) with a symbolic computed digest, plus to_hex_digit for every character, "
               "instead of all 64-digit strings (the parser's control flow is character dependent and symbolic digits made every loop bound symbolic); arbitrary lines of 1..100 symbolic characters are decided for "
               "memory safety and failure status; check files with more than one line; "
               "main() with -k / prompting / several input files; whole-process behaviour: real getopt, terminal prompting, signals; crash of the writer other than as a truncated input; cryptographic tamper detection (decided in C02); real BUFSIZ (8192)",
    "assumptions": ["POSIX I/O modelled by harness/C19 stubs (read/write may return -1 with EINTR/EAGAIN/EIO or a short count)", "crypto replaced by tracking stubs in the fault/format queries",
                    "snprintf/printf/fprintf/perror/getopt/getpass contract stubs (getopt: short options, one per argument)",
                    "strlen of a buffer just filled by the modelled fgets / of the -p argument is answered from the model's concrete length after CHECKing it; "
                    "asconsum queries run with --max-field-sensitivity-array-size 2048 (1024-byte line buffer)"],
    "explanation": "bounded model checking of the tool functions with a modelled file system and fault schedule",
}
MANIFEST = {
    "text": "Bounded model checking of the tool code (real sources, included into the harness) against a modelled file system: under every fault schedule a failed read, write, open or random source "
            "makes the operation report failure and delete its output; malformed or truncated inputs are rejected; a successful run wrote the complete file; decrypt_file(encrypt_file(x)) == x for every content and password; asconsum prints the digest lines and "
            "reports OK exactly for matching digests.",
    "note": "Unit level with a modelled environment, plus main() of asconcrypt for the -p path (exit status, whole password reaches the KDF, no output left on failure); the real getopt and prompting are outside. Tag strength is C02.",
    "technique": "bounded model checking with CBMC/cadical of the real tool sources against a modelled file system and a concrete-per-query fault schedule",
}
APP = "apps/asconcrypt"
SIZES_Q = [0, 1, 16, 31, 32, 33, 65]
SIZES_T = [0, 1, 15, 16, 17, 31, 32, 33, 48, 63, 64, 65, 69]


FAULTS = [(0, 0, 0)] + [(1, k, kind) for k in range(0, 6) for kind in (1, 3, 4)] + [(2, k, kind) for k in range(0, 6) for kind in (1, 2, 3, 4, 5)] + \
         [(3, 0, 3), (3, 1, 3), (4, 0, 3), (5, 0, 3)]


def q(kind, n=0, namelen=1, fault=(0, 0, 0)):
    kn = {1: "encrypt", 2: "decrypt_any_input", 3: "roundtrip", 4: "filenames", 5: "read_keyfile", 6: "generate_password"}[kind]
    name = "%s:%s" % (kn, ("len%d" % n) if kind in (1, 2, 3, 5) else ("name%d" % namelen if kind == 4 else "x"))
    if kind != 4:
        name += ":fault%d-%d-%d" % fault
    return Query(name, "harness/C19/crypt.c", repo_srcs=[APP + "/fileops.c"], backend="c64", with_backend=False, with_spec=False,
                 includes=[APP, "apps"], defs={"KIND": kind, "IN_LEN": n, "NAMELEN": namelen, "FAULT_OP": fault[0], "FAULT_AT": fault[1], "FAULT_KIND": fault[2]},
                 shape={"function": kn, "file_bytes": n, "name_chars": namelen, "fault": {"op": fault[0], "at_call": fault[1], "kind": fault[2]}},
                 unwind=1100, timeout=900, mem_gb=12)


def qmain(mode, pwlen, n, fault=(0, 0, 0)):
    name = "main:%s:pw%d:len%d:fault%d-%d-%d" % ((mode.strip("-"), pwlen, n) + fault)
    return Query(name, "harness/C19/crypt.c", repo_srcs=[APP + "/fileops.c"], backend="c64", with_backend=False, with_spec=False,
                 includes=[APP, "apps"], defs={"KIND": 7, "IN_LEN": n, "PWLEN": pwlen, "MAIN_DECRYPT": int(mode == "-d"), "FAULT_OP": fault[0], "FAULT_AT": fault[1], "FAULT_KIND": fault[2]},
                 shape={"function": "main", "mode": mode, "password_chars": pwlen, "file_bytes": n, "fault": {"op": fault[0], "at_call": fault[1], "kind": fault[2]}},
                 unwind=max(1100, pwlen + 10), timeout=1200, mem_gb=12)


def queries(tier):
    qs = []
    for n in ([0, 33] if tier == "quick" else SIZES_T):
        for f in FAULTS:
            if tier == "quick" and f[0] in (1, 2) and f[1] > 4:
                continue
            qs.append(q(1, n, fault=f))
    for n in (SIZES_Q if tier == "quick" else SIZES_T):
        qs.append(q(1, n)) if n not in (0, 33) and tier == "quick" else None
    for n in ([0, 27, 28, 79, 80, 95, 96, 97, 128, 129, 161] if tier == "quick" else [0, 1, 27, 28, 29, 79, 80, 81, 95, 96, 97, 111, 112, 113, 127, 128, 129, 160, 161, 165]):
        qs.append(q(2, n))
    for n in ([129] if tier == "quick" else [96, 129, 165]):
        for f in FAULTS[1:]:
            if f[0] == 3 or (tier == "quick" and f[1] > 3):
                continue
            qs.append(q(2, n, fault=f))
    for n in ([0, 1, 31, 32, 33, 65] if tier == "quick" else SIZES_T):
        qs.append(q(3, n))
    for nl in ([1, 2, 5, 6, 7, 12, 31, 32, 33, 37, 38, 39, 45] if tier == "quick" else list(range(1, 48))):
        qs.append(q(4, namelen=nl))
    for n in [0, 1, 5, 40]:
        qs.append(q(5, n))
        qs.append(q(5, n, fault=(1, 0, 3)))
        qs.append(q(5, n, fault=(1, 0, 1)))
    for f in [(0, 0, 0), (2, 0, 3), (2, 1, 3), (2, 0, 5), (2, 0, 4), (2, 0, 1), (3, 0, 3), (5, 0, 3)]:
        qs.append(q(6, fault=f))
    # main(): option handling, password acquisition from -p, exit status plumbing
    for mode in ("-e", "-d"):
        for pwlen in ([1, 8, 1022, 1023, 1024, 1025] if tier == "quick" else [1, 2, 8, 100, 511, 1021, 1022, 1023, 1024, 1025, 1026, 1100]):
            qs.append(qmain(mode, pwlen, 33 if mode == "-e" else 129))
        for f in [(1, 0, 3), (2, 0, 3), (2, 1, 5), (3, 0, 3), (4, 0, 3), (5, 0, 3)]:
            if mode == "-d" and f[0] == 3:
                continue
            qs.append(qmain(mode, 8, 33 if mode == "-e" else 129, fault=f))
    try:
        from checks import C19sum
        qs += C19sum.queries(tier)
    except ImportError:
        pass
    return [x for x in qs if x is not None]
