"""C17 - C++ classes compile when used and equal the C API for every keying path."""
import os
import subprocess
from lib import vlib
from lib.vlib import Query
from checks import cpp_ir

PROPERTY = "C17"
META = {
    "level": "model_checking",
    "functions": ["ascon::aead128/aead128a/aead80pq, siv128/128a/80pq, isap128a/128/80pq, aead128_masked/128a_masked/80pq_masked: constructors, key constructor, set_key, set_nonce, "
                  "set_counter, key_size/tag_size/nonce_size, encrypt/decrypt (pointer overloads), clear, destructor, isap save_key (clang-14 IR of src/cplusplus/*.cpp)",
                  "hash/hasha/xof/xofa class templates and utility.h helpers: compile-when-used (front half of the encoding) + byte-array helpers"],
    "bounds": "message 9 bytes, AD 3 bytes, two packets per object; key, alternate key bytes, nonce, data, presented tag symbolic; every keying path "
              "(default ctor, key ctor, set_key full / zero length with and without a NULL pointer / wrong length / saved ISAP key); the C library underneath is the real code with the permutation abstract",
    "outside": "byte_array / std::string overloads of the base class (virtual dispatch through libstdc++ containers) beyond 'compiles when used'; other message lengths (the members only forward lengths)",
    "assumptions": ["clang-14's IR of the classes stands for the classes (IR-to-C translator self-tested against the native build)", "transcript form composed with C08"],
    "explanation": "C++ member == C call, decided on clang IR translated to C; building the IR of a unit that calls every documented member is the compiles-when-used check",
}
MANIFEST = {
    "text": "The class code is compiled by clang to LLVM IR together with a unit that calls every documented member, translated to C and compared by CBMC with direct C API calls for "
            "every key, nonce and data and every way of constructing and keying the object (two packets per object, which also exposes the stored nonce).",
    "note": "Trusted: clang-14 front end, the IR-to-C translator, CBMC/cadical. A member that does not compile stops the encoding and is reported with the compiler diagnostic.",
    "technique": "bounded model checking of clang LLVM IR (own IR-to-C translation) against the C API, lock-step permutation abstraction",
}


def queries(tier):
    return cpp_ir.c17_queries(tier)


USE_ALL = r'''
#include <ascon/hash.h>
#include <ascon/xof.h>
#include <ascon/utility.h>
#include <string>
template <class H> static void use_hash(const unsigned char *p, size_t n, unsigned char *out)
{
    ascon::byte_array ba(p, p + n);
    H h;
    h.update(p, n); h.update("abc"); h.update(std::string("abc")); h.update(ba); h.finalize(out); (void)h.finalize(); h.reset();
    H copy(h); copy = h; (void)h.state(); const H &ch = h; (void)ch.state();
    H::digest(out, p, n);
}
template <class X> static void use_xof(const unsigned char *p, size_t n, unsigned char *out)
{
    ascon::byte_array ba(p, p + n);
    X x; X named("Name", p, n); X named2("Name", ba); X named3("Name");
    x.absorb(p, n); x.absorb("abc"); x.absorb(std::string("abc")); x.absorb(ba); x.squeeze(out, 5); (void)x.squeeze(5); x.pad(); x.reset();
    X copy(x); copy = x; (void)x.state(); const X &cx = x; (void)cx.state();
}
extern "C" void use_everything(const unsigned char *p, size_t n, unsigned char *out)
{
    use_hash<ascon::hash>(p, n, out);
    use_hash<ascon::hasha>(p, n, out);
    use_xof<ascon::xof>(p, n, out);
    use_xof<ascon::xofa>(p, n, out);
    use_xof<ascon::xof_with_output_length<32> >(p, n, out);
    use_xof<ascon::xof_with_output_length<64> >(p, n, out);
    use_xof<ascon::xofa_with_output_length<32> >(p, n, out);
    use_xof<ascon::xofa_with_output_length<64> >(p, n, out);
    ascon::byte_array b = ascon::bytes_from_hex("00 ff"); b = ascon::bytes_from_hex("00ff", 4); b = ascon::bytes_from_hex(std::string("0a"));
    b = ascon::bytes_from_data(p, n);
    std::string s = ascon::bytes_to_hex(p, n); s = ascon::bytes_to_hex(p, n, true); s = ascon::bytes_to_hex(b); s = ascon::bytes_to_hex(b, true);
}
'''


def side_checks(tier, run_dir):
    """'compiles when used': a translation unit that calls the documented members of the header-only classes must get through
    the encoder's front end (clang++ -emit-llvm).  Deterministic by-product of building the encoding, not a solver verdict."""
    src = os.path.join(run_dir, "use_all.cpp")
    with open(src, "w") as f:
        f.write(USE_ALL)
    cfgdir = os.path.join(run_dir, "cfg-4-2-4")
    vlib.write_config(cfgdir, (4, 2, 4))
    r = subprocess.run(["clang++-14", "-std=c++17", "-O1", "-S", "-emit-llvm", "-DHAVE_CONFIG_H", "-I", cfgdir, "-I", os.path.join(vlib.REPO, "src"), src, "-o", os.path.join(run_dir, "use_all.ll")],
                       capture_output=True, text=True)
    errs = [l for l in r.stderr.splitlines() if "error:" in l]
    return [{"name": "compiles-when-used:hash-xof-utility", "ok": r.returncode == 0, "kind": "encoder front end (clang++), not a solver verdict",
             "detail": "every documented member of hash/hasha/xof/xofa (+fixed-length templates) and utility.h called once: %s" %
                       ("compiles" if r.returncode == 0 else "; ".join(errs)[:1500])}]
