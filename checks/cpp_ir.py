"""Queries on the C++ classes through the LLVM-IR route, shared by C17 / C14 / C13 / C20."""
import os
from lib import vlib, irgen
from lib.vlib import Query
from checks.common import *

CPP_SRCS = ["src/cplusplus/ascon-aead-cpp.cpp", "src/cplusplus/ascon-siv-cpp.cpp", "src/cplusplus/ascon-isap-cpp.cpp", "src/cplusplus/ascon-aead-masked-cpp.cpp"]
CLSN = ["aead128", "aead128a", "aead80pq", "siv128", "siv128a", "siv80pq", "isap128a", "isap128", "isap80pq", "masked128", "masked128a", "masked80pq"]
C_LIB = sum((AEAD_SRCS[a] for a in (0, 1, 2)), []) + AEAD_COMMON + sum((SIV_SRCS[a] for a in (0, 1, 2)), []) + sum((ISAP_SRCS[a] for a in (0, 1, 2)), []) + \
    sum((MASKED_AEAD_SRCS[a] for a in (0, 1, 2)), []) + MASKED_COMMON[:1] + MASKED_COMMON[2:] + ["src/masking/ascon-masked-word-c64.c"]


def gen_cpp(run_dir, q):
    out, adp = irgen.cpp_unit(run_dir, "classes", [os.path.join(vlib.VERIF, "harness/C17/wrappers.cpp")] + CPP_SRCS, shares=q.shares, backend=q.backend)
    return out


C_LIB_PLAIN = sum((AEAD_SRCS[a] for a in (0, 1, 2)), []) + AEAD_COMMON + sum((SIV_SRCS[a] for a in (0, 1, 2)), [])


def gen_adp_plain(run_dir, q):
    """adapters + inert definitions of the ISAP/masked C entry points the translated unit references but a plain-AEAD harness never reaches"""
    out, adp = irgen.cpp_unit(run_dir, "classes", [os.path.join(vlib.VERIF, "harness/C17/wrappers.cpp")] + CPP_SRCS, shares=q.shares, backend=q.backend)
    return adp


def gen_unused(run_dir, q):
    out, adp = irgen.cpp_unit(run_dir, "classes", [os.path.join(vlib.VERIF, "harness/C17/wrappers.cpp")] + CPP_SRCS, shares=q.shares, backend=q.backend)
    gen_adp_plain(run_dir, q)
    return adp[:-2] + "-unused.c"


def gen_adp(run_dir, q):
    out, adp = irgen.cpp_unit(run_dir, "classes", [os.path.join(vlib.VERIF, "harness/C17/wrappers.cpp")] + CPP_SRCS, shares=q.shares, backend=q.backend)
    return adp


def class_query(prefix, cls, keying, dec, nlen=16, counter=0, altlen=7, altnull=0):
    name = "%s:%s:keying%d:%s:n%d%s%s" % (prefix, CLSN[cls], keying, "dec" if dec else "enc", nlen, ":counter" if counter else "",
                                         (":alt%d" % altlen) if keying == 4 else (":nullkey" if altnull else ""))
    lsmax = 90
    if cls >= 6:
        # ISAP / masked classes: decided at the call interface (C API stubbed, see harness/C17/cpp_stub.c)
        return Query(name, "harness/C17/cpp_stub.c", extra_srcs=["harness/common/ir_env.c"], backend="c64", with_backend=False, with_spec=False,
                     gen_srcs=[gen_cpp, gen_adp], defs={"CLS": cls, "KEYING": keying, "DEC": dec, "NLEN": nlen, "COUNTER": counter, "ALTLEN": altlen, "ALTNULL": altnull},
                     shape={"class": CLSN[cls], "keying": keying, "decrypt": dec, "nonce_len": nlen, "counter": counter, "level": "call interface"}, unwind=400, timeout=900)
    q = Query(name, "harness/C17/cpp.c", repo_srcs=C_LIB_PLAIN, extra_srcs=["harness/common/ir_env.c"],
              backend="c64", form="T", gen_srcs=[gen_cpp, gen_adp_plain],
              defs={"CLS": cls, "KEYING": keying, "DEC": dec, "NLEN": nlen, "COUNTER": counter, "ALTLEN": altlen, "ALTNULL": altnull, "LS_MAX": lsmax},
              shape={"class": CLSN[cls], "keying": keying, "decrypt": dec, "nonce_len": nlen, "counter": counter}, unwind=400, timeout=1500, mem_gb=12,
              cost=300 if 6 <= cls <= 8 else 30)
    return q


def gen_hx(which):
    def g(run_dir, q):
        out, adp = irgen.cpp_unit(run_dir, "hx", [os.path.join(vlib.VERIF, "harness/C17/hx_wrap.cpp")], null_gep=True)
        return adp if which else out
    return g


def hx_queries(tier):
    qs = []
    for fam, fn in ((0, "xof"), (1, "xofa"), (2, "hash"), (3, "hasha")):
        for n in ((0, 16, 32, 48) if fam <= 1 else (0,)):
            name = "cpp-hx:%s%s" % (fn, ("<%d>" % n) if fam <= 1 else "")
            qs.append(Query(name, "harness/C17/hx.c", extra_srcs=["harness/common/ir_env.c"], backend="c64", with_backend=False, with_spec=False,
                            gen_srcs=[gen_hx(0), gen_hx(1)], defs={"FAM": fam, "N": n}, unwind=40, timeout=600,
                            shape={"class": fn, "template_outlen": n, "level": "call interface", "members": "all documented except std::string overloads"}))
    return qs


def c17_queries(tier):
    qs = hx_queries(tier)
    for cls in range(12):
        for keying in (0, 1, 2, 3, 4, 6, 7) + ((5,) if 6 <= cls <= 8 else ()):
            for dec in ((0, 1) if (tier == "thorough" or keying in (1, 2)) else (0,)):
                pass
                qs.append(class_query("cpp", cls, keying, dec, altlen=(KLEN(cls) + 1 if dec else 7)))
        qs.append(class_query("cpp", cls, 3, 0, altnull=1)) if not (6 <= cls <= 8 and tier == "quick" and cls != 6) else None
    return [q for q in qs if q is not None]


def KLEN(cls):
    return 20 if cls in (2, 5, 8, 11) else 16


def c14_queries(tier):
    qs = []
    for cls in range(12):
        # every class has its own set_nonce: zero length and a short nonce on each (quick), all four shapes (thorough)
        for nlen in ([0, 5, 16, 20] if cls in (0, 5) or tier == "thorough" else [0, 5]):
            qs.append(class_query("cpp-nonce", cls, 1, 0, nlen=nlen))
        # decryption (accepted and rejected in one query) on every class: each class has its own do_decrypt (seed C14-5)
        qs.append(class_query("cpp-nonce", cls, 1, 1, nlen=16))
        if tier == "thorough" or cls in (0, 5, 9):
            qs.append(class_query("cpp-nonce", cls, 1, 0, counter=1))
    return qs


def c13_queries(tier):
    qs = []
    for cls in range(12):
        for use_clear in (0, 1):
            qs.append(Query("cpp-wipe:%s:%s" % (CLSN[cls], "clear" if use_clear else "destructor"), "harness/C13/cpp_wipe.c", extra_srcs=["harness/common/ir_env.c"],
                            backend="c64", with_backend=False, with_spec=False, gen_srcs=[gen_cpp, gen_adp], defs={"CLS": cls, "USE_CLEAR": use_clear},
                            shape={"class": CLSN[cls], "operation": "clear()" if use_clear else "destructor", "ir": "clang -O2 whole-module"}, unwind=300, timeout=600))
    return qs


def gen_ba(stl, which=0):
    def g(run_dir, q):
        srcs = [os.path.join(vlib.VERIF, "harness/C20/ba_wrap.cpp")] + ([] if stl else ["src/cplusplus/ascon-byte-array.cpp"])
        out, adp = irgen.cpp_unit(run_dir, "ba-stl" if stl else "ba-nostl", srcs, extra_flags=[] if stl else ["-DASCON_NO_STL"], null_gep=True)
        return adp if which else out
    return g


def ba_query(name, defs, shape, stl=False, unwind=12, timeout=900, cost=10):
    return Query(name, "harness/C20/ba.c", repo_srcs=["src/core/ascon-hex.c"], extra_srcs=["harness/common/ir_env.c"], backend="c64",
                 with_backend=False, with_spec=False, gen_srcs=[gen_ba(stl), gen_ba(stl, 1)], defs=defs, shape=shape, unwind=unwind, timeout=timeout, mem_gb=12, cost=cost)


BA_OPS = ["construct(n,v)", "operator=", "copy-construct", "resize", "reserve", "push_back", "pop_back", "clear", "operator[] write", "data() write",
          "a[i] = a[j]", "swap through two operator[] references"]


def canon_pat(a, b, c):
    ren, out = {0: 0}, []
    for x in (a, b, c):
        if x not in ren:
            ren[x] = len(ren)
        out.append(ren[x])
    return out[0] * 100 + out[1] * 10 + out[2]


def c16_queries(tier):
    """read-only members of the NO_STL byte_array leave the object and the shared buffer bit-identical (constant inputs may be shared between threads)"""
    pats = sorted(set(canon_pat(*sorted((a, b, c))) for a in range(4) for b in range(4) for c in range(4)))
    return [ba_query("byte_array-readonly:pat%03d" % pat, {"KIND": 5, "PAT": pat}, {"sharing_pattern": "%03d" % pat, "members": "size, empty, const operator[], == != < <= > >="},
                     timeout=1200, cost=40) for pat in pats if pat != 0 or True]


def c20_queries(tier):
    qs = []
    for n in range(0, 7 if tier == "quick" else 9):
        for stl in (0, 1):
            qs.append(ba_query("cpp-hex:%s:in%d" % ("stl" if stl else "nostl", n), {"KIND": 2, "INLEN": n},
                               {"chars": n, "configuration": "std::vector" if stl else "ASCON_NO_STL"}, stl=bool(stl), unwind=24))
    for sh in (0, 1):
        qs.append(ba_query("byte_array:index-move:%s" % ("shared" if sh else "unique"), {"KIND": 1, "SHARED": sh}, {"ops": "a[i] = a[j]", "shared": sh}))
    # the value model itself, validated against libstdc++'s std::vector through the same driver and translator
    for op in range(12):
        for fix in ([(2, 1)] if op in (1, 2) else [None]):   # other (i, j) choices for vector assignment do not finish in 20 min
            defs = {"KIND": 0, "STEPS": 1, "FIRST": op, "PRE": 1}
            if fix:
                defs.update({"FIXI": fix[0], "FIXJ": fix[1]})
            qs.append(ba_query("model-vs-std-vector:op%d%s" % (op, ":%d%d" % fix if fix else ""), defs,
                               {"steps": 1, "op": BA_OPS[op], "subject": "std::vector", "pre_state": "a(n0,v0), b(n1,v1), c = a"}, stl=True, timeout=1200, cost=40))
    qs.append(ba_query("byte_array:layout-canary", {"KIND": 4}, {"purpose": "field offsets used by the inductive-step harness"}))
    # sharing patterns up to renaming of buffers: each variable has no buffer (0) or one of the buffers 1..3
    # ... and up to renaming of the variables (the operated variable, the source variable and the observed variables are all
    # solver-chosen, so the harness is symmetric in them): 000 001 011 012 111 112 123
    pats = sorted(set(canon_pat(*sorted((a, b, c))) for a in range(4) for b in range(4) for c in range(4)))
    for pat in pats:
        for op in range(12):
            if pat == 0 and op in (6, 8, 9, 10, 11):
                continue        # these need a non-empty array; none exists in the all-empty pattern
            qs.append(ba_query("byte_array:step:pat%03d:op%d" % (pat, op), {"KIND": 3, "PAT": pat, "OP": op},
                               {"sharing_pattern": "%03d" % pat, "op": BA_OPS[op], "max_size": 4}, timeout=1200, cost=40))
    return qs
