"""Queries on the C++ classes through the LLVM-IR route, shared by C17 / C14 / C13 / C20."""
import os
from lib import vlib, irgen
from lib.vlib import Query
from checks.common import *

CPP_SRCS = ["src/cplusplus/ascon-aead-cpp.cpp", "src/cplusplus/ascon-siv-cpp.cpp", "src/cplusplus/ascon-isap-cpp.cpp", "src/cplusplus/ascon-aead-masked-cpp.cpp"]
CLSN = ["aead128", "aead128a", "aead80pq", "siv128", "siv128a", "siv80pq", "isap128a", "isap128", "isap80pq", "masked128", "masked128a", "masked80pq"]
C_LIB = sum((AEAD_SRCS[a] for a in (0, 1, 2)), []) + AEAD_COMMON + sum((SIV_SRCS[a] for a in (0, 1, 2)), []) + sum((ISAP_SRCS[a] for a in (0, 1, 2)), []) + \
    sum((MASKED_AEAD_SRCS[a] for a in (0, 1, 2)), []) + MASKED_COMMON[:1] + MASKED_COMMON[2:] + ["src/masking/ascon-masked-word-c64.c"]


def gen_cpp(run_dir, q):
    out, adp = irgen.cpp_unit(run_dir, "classes", [os.path.join(vlib.VERIF, "harness/C17/wrappers.cpp")] + CPP_SRCS, shares=q.shares, backend=q.backend)
    return out


C_LIB_PLAIN = sum((AEAD_SRCS[a] for a in (0, 1, 2)), []) + AEAD_COMMON + sum((SIV_SRCS[a] for a in (0, 1, 2)), [])


def gen_adp_plain(run_dir, q):
    """adapters + inert definitions of the ISAP/masked C entry points the translated unit references but a plain-AEAD harness never reaches"""
    out, adp = irgen.cpp_unit(run_dir, "classes", [os.path.join(vlib.VERIF, "harness/C17/wrappers.cpp")] + CPP_SRCS, shares=q.shares, backend=q.backend)
    return adp


def gen_unused(run_dir, q):
    out, adp = irgen.cpp_unit(run_dir, "classes", [os.path.join(vlib.VERIF, "harness/C17/wrappers.cpp")] + CPP_SRCS, shares=q.shares, backend=q.backend)
    gen_adp_plain(run_dir, q)
    return adp[:-2] + "-unused.c"


def gen_adp(run_dir, q):
    out, adp = irgen.cpp_unit(run_dir, "classes", [os.path.join(vlib.VERIF, "harness/C17/wrappers.cpp")] + CPP_SRCS, shares=q.shares, backend=q.backend)
    return adp


def class_query(prefix, cls, keying, dec, nlen=16, counter=0, altlen=7, altnull=0):
    name = "%s:%s:keying%d:%s:n%d%s%s" % (prefix, CLSN[cls], keying, "dec" if dec else "enc", nlen, ":counter" if counter else "",
                                         (":alt%d" % altlen) if keying == 4 else (":nullkey" if altnull else ""))
    lsmax = 90
    if cls >= 6:
        # ISAP / masked classes: decided at the call interface (C API stubbed, see harness/C17/cpp_stub.c)
        return Query(name, "harness/C17/cpp_stub.c", extra_srcs=["harness/common/ir_env.c"], backend="c64", with_backend=False, with_spec=False,
                     gen_srcs=[gen_cpp, gen_adp], defs={"CLS": cls, "KEYING": keying, "DEC": dec, "NLEN": nlen, "COUNTER": counter, "ALTLEN": altlen, "ALTNULL": altnull},
                     shape={"class": CLSN[cls], "keying": keying, "decrypt": dec, "nonce_len": nlen, "counter": counter, "level": "call interface"}, unwind=400, timeout=900)
    q = Query(name, "harness/C17/cpp.c", repo_srcs=C_LIB_PLAIN, extra_srcs=["harness/common/ir_env.c"],
              backend="c64", form="T", gen_srcs=[gen_cpp, gen_adp_plain],
              defs={"CLS": cls, "KEYING": keying, "DEC": dec, "NLEN": nlen, "COUNTER": counter, "ALTLEN": altlen, "ALTNULL": altnull, "LS_MAX": lsmax},
              shape={"class": CLSN[cls], "keying": keying, "decrypt": dec, "nonce_len": nlen, "counter": counter}, unwind=400, timeout=1500, mem_gb=12,
              cost=300 if 6 <= cls <= 8 else 30)
    return q


def c17_queries(tier):
    qs = []
    for cls in range(12):
        for keying in (0, 1, 2, 3, 4, 6, 7) + ((5,) if 6 <= cls <= 8 else ()):
            for dec in ((0, 1) if (tier == "thorough" or keying in (1, 2)) else (0,)):
                pass
                qs.append(class_query("cpp", cls, keying, dec, altlen=(KLEN(cls) + 1 if dec else 7)))
        qs.append(class_query("cpp", cls, 3, 0, altnull=1)) if not (6 <= cls <= 8 and tier == "quick" and cls != 6) else None
    return [q for q in qs if q is not None]


def KLEN(cls):
    return 20 if cls in (2, 5, 8, 11) else 16


def c14_queries(tier):
    qs = []
    for cls in ([0, 5, 9] if tier == "quick" else range(12)):
        if 6 <= cls <= 8 and tier == "quick":
            continue
        for nlen in ([0, 5, 16, 20] if cls in (0, 5) or tier == "thorough" else [16]):
            qs.append(class_query("cpp-nonce", cls, 1, 0, nlen=nlen))
        qs.append(class_query("cpp-nonce", cls, 1, 1, nlen=16))
        qs.append(class_query("cpp-nonce", cls, 1, 0, counter=1))
    return qs


def c13_queries(tier):
    qs = []
    for cls in range(12):
        for use_clear in (0, 1):
            qs.append(Query("cpp-wipe:%s:%s" % (CLSN[cls], "clear" if use_clear else "destructor"), "harness/C13/cpp_wipe.c", extra_srcs=["harness/common/ir_env.c"],
                            backend="c64", with_backend=False, with_spec=False, gen_srcs=[gen_cpp, gen_adp], defs={"CLS": cls, "USE_CLEAR": use_clear},
                            shape={"class": CLSN[cls], "operation": "clear()" if use_clear else "destructor", "ir": "clang -O2 whole-module"}, unwind=300, timeout=600))
    return qs


def c20_queries(tier):
    return []
