"""C14 - session nonces."""
from lib.vlib import Query
from checks.common import *

PROPERTY = "C14"
META = {
    "level": "model_checking",
    "functions": ["ascon_aead_increment_nonce", "ascon_aead_set_counter", "ascon{128,128a,80pq}_aead_{init,start,encrypt_block,encrypt_finalize}",
                  "C++ cipher classes' nonce rules (do_encrypt/do_decrypt/set_nonce/set_counter) via the LLVM-IR route"],
    "bounds": "increment_nonce: all 2^128 nonces in one query (covers every carry-chain length); set_counter: all 2^64 counters; sessions of two packets "
              "(AD, plaintext lengths concrete; key, nonce, data symbolic) compared with the one-shot model under N and N+1; mixed sessions of three packets "
              "(encrypt, decrypt of an arbitrary ciphertext/tag pair, encrypt) compared with the model under N, N+1, N+2",
    "outside": "sessions longer than three packets as a direct claim (start only reads key/nonce and overwrites the whole state, so packet i depends on the stored nonce only)",
    "assumptions": ["transcript form composed with C08"],
    "explanation": "bounded model checking; arithmetic model = two 64-bit limbs with carry",
}
MANIFEST = {
    "text": "Bounded model checking: the nonce increment equals +1 mod 2^128 big-endian for all 2^128 inputs, set_counter for all 2^64; two consecutive packets of an "
            "incremental session equal the one-shot model under N and N+1 and leave N+2 stored; a three-packet session encrypt / decrypt(arbitrary ciphertext and tag, accepted or rejected) / encrypt equals the model under N, N+1, N+2 and leaves N+3; the C++ objects' nonce rules are decided on the clang IR of the class code.",
    "note": "Trusted: CBMC/cadical, spec models, lock-step composition; for the C++ part the IR-to-C translator (self-validated against the native build).",
}


def queries(tier):
    qs = [Query("increment_nonce:all", "harness/C14/nonce.c", repo_srcs=["src/aead/ascon-aead-util.c"], backend="c64", form="I", defs={"KIND": 0}, unwind=40, timeout=300,
                shape={"fn": "ascon_aead_increment_nonce", "inputs": "2^128"}),
          Query("set_counter:all", "harness/C14/nonce.c", repo_srcs=["src/aead/ascon-aead-util.c"], backend="c64", form="I", defs={"KIND": 1}, unwind=40, timeout=300,
                shape={"fn": "ascon_aead_set_counter", "inputs": "2^64"})]
    for be in (["c64", "c32"] if tier == "quick" else ["c64", "c32", "direct", "generic", "x86asm"]):
        for alg in (0, 1, 2):
            r = aead_rate(alg)
            for ad, m in ([(0, 0), (r + 1, r + 1)] if tier == "quick" else [(0, 0), (1, r), (r + 1, r + 1), (r, 2 * r + 1)]):
                qs.append(Query("session2:%s:%s:ad%d:m%d" % (ALGN[alg], be, ad, m), "harness/C14/nonce.c", repo_srcs=AEAD_SRCS[alg] + AEAD_COMMON, backend=be, form="T",
                                defs={"KIND": 2, "ALG": alg, "ADLEN": ad, "MLEN": m, "LS_MAX": 2 * aead_calls(alg, ad, m) + 2},
                                shape={"alg": ALGN[alg], "adlen": ad, "mlen": m, "packets": 2}, unwind=80, timeout=900))
            for ad, m in ([(1, r + 1)] if tier == "quick" else [(0, 0), (1, r + 1), (r, r)]):
                qs.append(Query("session3mixed:%s:%s:ad%d:m%d" % (ALGN[alg], be, ad, m), "harness/C14/nonce.c", repo_srcs=AEAD_SRCS[alg] + AEAD_COMMON, backend=be, form="T",
                                defs={"KIND": 3, "ALG": alg, "ADLEN": ad, "MLEN": m, "LS_MAX": 3 * aead_calls(alg, ad, m) + 2},
                                shape={"alg": ALGN[alg], "adlen": ad, "mlen": m, "packets": "encrypt, decrypt(arbitrary ciphertext and tag), encrypt"}, unwind=80, timeout=900))
    try:
        from checks import cpp_ir
        qs += cpp_ir.c14_queries(tier)
    except ImportError:
        pass
    return qs
