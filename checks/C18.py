"""C18 - assembly back ends: semantics, ABI, footprint, generator identity, executable-stack flag."""
import importlib
import os
import re
import shutil
import subprocess
import sys
from lib import vlib
from lib.vlib import Query

sys.path.insert(0, os.path.join(vlib.VERIF, "enc", "asm"))
PROPERTY = "C18"

# file, executor module, layout, extra key for TARGET_DEFINES, 64-bit data path?
FILES = [
    ("src/core/ascon-asm-x86-64.S", "x86_64", "sliced64-le", None, True),
    ("src/core/ascon-asm-i386.S", "i386", "sliced32", None, False),
    ("src/core/ascon-asm-armv6.S", "arm32", "sliced32", None, False),
    ("src/core/ascon-asm-armv6m.S", "arm32", "sliced32", None, False),
    ("src/core/ascon-asm-armv7m.S", "arm32", "sliced32", None, False),
    ("src/core/ascon-asm-armv8a-64.S", "aarch64", "sliced64-le", None, True),
    ("src/core/ascon-asm-riscv32e.S", "riscv", "sliced32", None, False),
    ("src/core/ascon-asm-riscv32i.S", "riscv", "sliced32", None, False),
    ("src/core/ascon-asm-riscv64i.S", "riscv", "sliced64-le", None, True),
    ("src/core/ascon-asm-xtensa.S", "xtensa", "sliced64-le", None, False),
    ("src/core/ascon-asm-xtensa.S", "xtensa", "sliced64-le", "ascon-asm-xtensa.S:windowed", False),
    ("src/core/ascon-asm-m68k.S", "m68k", "sliced32-be", None, False),
    ("src/core/ascon-asm-avr5.S", "avr5", "bytes-be", None, False),
]
MASKED_X86 = ["src/masking/ascon-x2-asm-x86-64.S", "src/masking/ascon-x3-asm-x86-64.S", "src/masking/ascon-x4-asm-x86-64.S", "src/masking/ascon-word-asm-x86-64.S"]
MASKED_AVR = ["src/masking/ascon-x2-asm-avr5.S", "src/masking/ascon-x3-asm-avr5.S"]
GENERATORS = {   # tools sub-directory -> [(command relative to that directory, output file)]
    "genarm": [(["bin/ascon_armv6"], "src/core/ascon-asm-armv6.S"), (["bin/ascon_armv6m"], "src/core/ascon-asm-armv6m.S"),
               (["bin/ascon_armv7m"], "src/core/ascon-asm-armv7m.S"), (["bin/ascon_armv8a_64"], "src/core/ascon-asm-armv8a-64.S")],
    "genavr": [(["./genavr", "ASCON"], "src/core/ascon-asm-avr5.S"), (["./genavr", "ASCON-x2"], "src/masking/ascon-x2-asm-avr5.S"),
               (["./genavr", "ASCON-x3"], "src/masking/ascon-x3-asm-avr5.S")],
    "genm68k": [(["bin/ascon_m68k"], "src/core/ascon-asm-m68k.S")],
    "genriscv": [(["bin/ascon_riscv32e"], "src/core/ascon-asm-riscv32e.S"), (["bin/ascon_riscv32i"], "src/core/ascon-asm-riscv32i.S"),
                 (["bin/ascon_riscv64"], "src/core/ascon-asm-riscv64i.S")],
    "genx86": [(["bin/ascon_i386"], "src/core/ascon-asm-i386.S"), (["bin/ascon_x86_64"], "src/core/ascon-asm-x86-64.S"),
               (["bin/ascon_x86_64_masked", "2"], "src/masking/ascon-x2-asm-x86-64.S"), (["bin/ascon_x86_64_masked", "3"], "src/masking/ascon-x3-asm-x86-64.S"),
               (["bin/ascon_x86_64_masked", "4"], "src/masking/ascon-x4-asm-x86-64.S"), (["bin/ascon_x86_64_masked_word"], "src/masking/ascon-word-asm-x86-64.S")],
    "genxtensa": [(["bin/ascon_xtensa_64"], "src/core/ascon-asm-xtensa.S")],
}

META = {
    "level": "model_checking",
    "functions": ["ascon_permute of each of the 12 plain assembly files (13 variants with both Xtensa ABIs), symbolically executed by enc/asm/<isa>.py",
                  "x86-64 masked files: semantics decided in C10 (ascon_x{2,3,4}_permute, 33 masked-word functions); ABI/footprint by the same executor",
                  "AVR5 masked files ascon_x2_permute / ascon_x3_permute: one round extracted at every start round 0..11 (loop back edge not taken) proved equal to the specification round on the "
                  "unmasked value for all shares and all preserved randomness, plus the natural two-round run from round 10 as composition witness; ABI/footprint for start rounds 0..11"],
    "bounds": "start round concrete 0..12 (quick: {0, 1, 5, 6, 9, 11, 12} for the 32-bit data paths), all 2^320 states symbolic; the executor follows the single control path of each start round "
              "and refuses data-dependent flags/addresses, ABI violations and out-of-footprint accesses",
    "outside": "instruction encodings / assembler behaviour (the executor works on assembly text); AVR masked x2/x3: the full 12-round run is not one query (cost doubles per round) - "
               "claimed is every single round, two consecutive rounds, and the concrete iteration count seen by the executor; that consecutive iterations compose in general rests on the loop body being the same code; "
               "(a) byte-identity with generator output and (d) the executable-stack flag are syntactic side checks, explicitly not solver verdicts",
    "assumptions": ["instruction semantics tables of enc/asm/<isa>.py (each validated natively on random states and by the same CBMC equivalence)",
                    "callers zero-extend first_round to register width where the ABI leaves upper bits unspecified (aarch64 module poisons them instead)"],
    "explanation": "assembly text -> partial-evaluating symbolic execution -> straight-line C -> CBMC equivalence with the specification",
}
MANIFEST = {
    "text": "Each checked-in assembly permutation is symbolically executed (control concrete, data symbolic) into straight-line C which CBMC proves equal to the specification permutation for all "
            "2^320 states per start round under the file's state layout; the executor enforces the ISA's ABI (callee-saved registers, stack pointer, return address), the memory footprint (state object + own frame) "
            "and data-independent control/addresses on the path of every start round. Generator identity and the GNU-stack marking are deterministic side checks.",
    "note": "Trusted: the per-ISA instruction semantics in enc/asm (written from the architecture manuals' definitions, small instruction subsets), CBMC/cadical. ISAs whose executor is missing are listed as not covered, never as passing.",
    "technique": "symbolic execution of assembly text (own executor) + bounded model checking of the emitted C against the specification",
}


def load(mod):
    try:
        return importlib.import_module(mod)
    except Exception as e:      # missing or broken executor: reported as not covered
        return None


def variant_name(path, key):
    b = os.path.basename(path)[len("ascon-asm-"):-2]
    return b + ("-windowed" if key and key.endswith("windowed") else "")


def translate_file(run_dir, path, module, key, rounds):
    m = load(module)
    if m is None:
        raise RuntimeError("executor module enc/asm/%s.py missing" % module)
    cfgdir = os.path.join(run_dir, "cfg-4-2-4")
    vlib.write_config(cfgdir, (4, 2, 4))
    defines = list(getattr(m, "TARGET_DEFINES", {}).get(key or os.path.basename(path), []))
    if module == "x86_64":
        defines = ["-DHAVE_CONFIG_H"]
    src = os.path.join(vlib.REPO, "src")
    text = m.preprocess(os.path.join(vlib.REPO, path), [cfgdir, src, os.path.join(src, "core"), os.path.join(src, "masking")], defines)
    out = {}
    for r in rounds:
        out[r] = m.translate(text, "ascon_permute", r, "asm_fn")
    return out


def gen_asm(run_dir, q):
    path, module, layout, key, r = q.asm
    d = os.path.join(run_dir, "asm-%s-r%d" % (variant_name(path, key), r))
    os.makedirs(d, exist_ok=True)
    if not os.path.exists(os.path.join(d, "asm_gen.h")):
        c, rep = translate_file(run_dir, path, module, key, [r])[r]
        with open(os.path.join(d, "asm_gen.h"), "w") as f:
            f.write(c)
    q.includes = [d]
    return os.path.join(vlib.VERIF, "harness/common/libc_stubs.c")


def gen_avr_masked(run_dir, q):
    n, r, iters = q.avrm
    avr = load("avr5")
    d = os.path.join(run_dir, "avrm-x%d-r%d-i%d" % (n, r, iters))
    os.makedirs(d, exist_ok=True)
    if not os.path.exists(os.path.join(d, "asm_gen.h")):
        path = MASKED_AVR[n - 2]
        src = os.path.join(vlib.REPO, "src")
        text = avr.preprocess(os.path.join(vlib.REPO, path), [src, os.path.join(src, "masking"), os.path.join(src, "core")],
                              list(avr.TARGET_DEFINES.get(os.path.basename(path), avr.TARGET_DEFINES.get("ascon-asm-avr5.S", []))))
        # one round: the loop's back edge is not taken.  More than one round: the natural run from round 12 - iters
        # (the x3 file reaches its loop head through a trampoline, so counting backward jumps is not a round count)
        assert iters == 1 or r == 12 - iters
        c, rep = avr.translate_masked(text, "ascon_x%d_permute" % n, r, "f", 3, back_edge_limit=0 if iters == 1 else None)
        with open(os.path.join(d, "asm_gen.h"), "w") as f:
            f.write(c)
    q.includes = [d]
    return os.path.join(vlib.VERIF, "harness/common/libc_stubs.c")


def avr_masked_queries(tier):
    qs = []
    avr = load("avr5")
    if avr is None or not hasattr(avr, "translate_masked"):
        return qs
    for n in (2, 3):
        shapes = [(r, 1) for r in range(12)] + [(10, 2)]
        if tier == "quick":
            shapes = [(0, 1), (5, 1), (11, 1), (10, 2)] if n == 2 else [(0, 1), (11, 1)]
        for (r, iters) in shapes:
            q = Query("avr5-masked:x%d:r%d:iters%d" % (n, r, iters), "harness/C18/avr_masked.c", backend="c64", with_backend=False, form=None,
                      gen_srcs=[gen_avr_masked], defs={"N": n, "ROUND": r, "ITERS": iters}, unwind=130, timeout=3000, mem_gb=14, cost=300 * n * iters,
                      shape={"file": MASKED_AVR[n - 2], "start_round": r, "rounds_executed": iters, "max_shares": 3})
            q.avrm = (n, r, iters)
            q.group = "avr5-masked"
            qs.append(q)
    return qs


def queries(tier):
    qs = avr_masked_queries(tier)
    for path, module, layout, key, wide in FILES:
        if load(module) is None:
            continue
        rounds = range(13) if (tier == "thorough" or wide) else [0, 1, 5, 6, 9, 11, 12]   # quick: entry points of the round dispatch, not only the library's own 0/4/6
        if module == "avr5":
            # the AVR loop is a do-while on an 8-bit round-constant register: first_round >= 12 is outside the documented
            # domain (0..11) and does not act as the identity there (256-n rounds); the property quantifies over 0..11
            rounds = [r for r in rounds if r <= 11]
        for r in rounds:
            q = Query("asm:%s:r%d" % (variant_name(path, key), r), "harness/C18/asm_equiv.c", backend="c64", with_backend=False,
                      defs={"ROUND": r, "LAYOUT_" + layout.upper().replace("-", "_"): 1}, gen_srcs=[gen_asm],
                      shape={"file": path, "variant": variant_name(path, key), "first_round": r, "layout": layout}, unwind=70, timeout=1500,
                      cost=10 if wide else 100 * (13 - r))
            q.asm = (path, module, layout, key, r)
            qs.append(q)
    return qs


def _sources_for_with_includes():
    pass


def side_checks(tier, run_dir):
    res = []
    # 1. executor on every start round of every file: ABI, footprint, data-independent control/addresses
    for path, module, layout, key, wide in FILES:
        name = "executor:" + variant_name(path, key)
        if load(module) is None:
            res.append({"name": name, "ok": True, "kind": "NOT COVERED", "detail": "no executor for this ISA yet: NOT COVERED (not counted as passing)"})
            continue
        try:
            out = translate_file(run_dir, path, module, key, (list(range(13)) + [13, 255]) if module != "avr5" else list(range(12)))
            frames = sorted(set(int(rep.get("max_frame", 0)) for (_, rep) in out.values()))
            res.append({"name": name, "ok": True, "kind": "symbolic execution",
                        "detail": "start rounds %s: ABI restored, all accesses inside state object or own frame (max %s bytes), no data-dependent flag/address" % (("0..11" if module == "avr5" else "0..13,255"), frames)})
        except Exception as e:
            res.append({"name": name, "ok": False, "kind": "symbolic execution", "detail": "%s: %s" % (type(e).__name__, str(e)[:600])})
    # x86-64 masked files: executor (ABI / footprint / data independence); semantics are C10's queries
    try:
        from lib import asmgen
        for sh in ((4, 2, 4), (3, 3, 3), (2, 2, 2)):
            asmgen.x86_masked_word_source(run_dir, sh)
            for n in range(2, sh[2] + 1):
                asmgen.x86_masked_perm_source(run_dir, sh, n, "full", 0)
        res.append({"name": "executor:x86-64-masked", "ok": True, "kind": "symbolic execution",
                    "detail": "ascon_x2/x3/x4_permute (13 start rounds) and 33 masked-word functions (all sizes, aliased and distinct operands) for max shares 2,3,4: ABI, footprint, data independence"})
    except Exception as e:
        res.append({"name": "executor:x86-64-masked", "ok": False, "kind": "symbolic execution", "detail": str(e)[:600]})
    avr = load("avr5")
    if avr is not None and hasattr(avr, "translate_masked"):
        for path in MASKED_AVR:
            n = 2 if "x2" in path else 3
            try:
                text = avr.preprocess(os.path.join(vlib.REPO, path), [os.path.join(vlib.REPO, "src"), os.path.join(vlib.REPO, "src/masking"), os.path.join(vlib.REPO, "src/core")],
                                      list(avr.TARGET_DEFINES.get(os.path.basename(path), avr.TARGET_DEFINES.get("ascon-asm-avr5.S", []))))
                for r in range(12):        # documented domain 0..11 (see the note on the AVR do-while loop)
                    avr.translate_masked(text, "ascon_x%d_permute" % n, r, "f", 3)     # AVR clamps the maximum share count to 3
                res.append({"name": "executor:avr5-x%d" % n, "ok": True, "kind": "symbolic execution", "detail": "start rounds 0..11: ABI, footprint, data independence; semantics: see the avr5-masked:* queries (every single round + two-round composition witness)"})
            except Exception as e:
                res.append({"name": "executor:avr5-x%d" % n, "ok": False, "kind": "symbolic execution", "detail": str(e)[:600]})
    else:
        res.append({"name": "executor:avr5-masked", "ok": True, "kind": "NOT COVERED", "detail": "AVR masked x2/x3 files: NOT COVERED by an executor"})
    # 2. (a) byte identity with the generators under tools/
    tools = os.path.join(run_dir, "tools")
    shutil.copytree(os.path.join(vlib.REPO, "tools"), tools)
    for sub, outs in GENERATORS.items():
        r = subprocess.run(["make", "-s", "all"], cwd=os.path.join(tools, sub), capture_output=True, text=True)
        if r.returncode != 0:
            res.append({"name": "generator:" + sub, "ok": False, "kind": "syntactic (not a solver verdict)", "detail": "generator does not build: " + r.stderr[-400:]})
            continue
        for cmd, target in outs:
            g = subprocess.run(cmd, cwd=os.path.join(tools, sub), capture_output=True)
            same = g.returncode == 0 and g.stdout == open(os.path.join(vlib.REPO, target), "rb").read()
            res.append({"name": "generator:" + os.path.basename(target), "ok": same, "kind": "syntactic (not a solver verdict)",
                        "detail": "%s is %s the output of tools/%s %s" % (target, "byte-identical to" if same else "DIFFERENT from", sub, " ".join(cmd))})
    # 3. (d) ELF objects must not request an executable stack
    cm = open(os.path.join(vlib.REPO, "CMakeLists.txt")).read()
    flag = "--noexecstack" in cm
    for path in sorted(set(f[0] for f in FILES)) + MASKED_X86 + MASKED_AVR:
        text = open(os.path.join(vlib.REPO, path)).read()
        note = ".note.GNU-stack" in text
        detail = "assembler flag --noexecstack in CMakeLists.txt: %s; .note.GNU-stack in the file: %s" % (flag, note)
        ok = flag or note
        if "x86-64" in path:
            # host-assemblable: build the object the way the project does and look at it
            m = re.search(r'set\(ASM_OPTIONS "([^"]*)"\)', cm)
            opts = m.group(1).split() if m else []
            extra = re.findall(r'set\(ASM_OPTIONS "\$\{ASM_OPTIONS\} ([^"]*)"\)', cm)
            for e in extra:
                opts += e.split()
            obj = os.path.join(run_dir, os.path.basename(path) + ".o")
            cfgdir = os.path.join(run_dir, "cfg-4-2-4")
            vlib.write_config(cfgdir, (4, 2, 4))
            r = subprocess.run(["gcc", "-c"] + opts + ["-DHAVE_CONFIG_H", "-I", cfgdir, "-I", os.path.join(vlib.REPO, "src"), os.path.join(vlib.REPO, path), "-o", obj], capture_output=True, text=True)
            if r.returncode == 0:
                sec = subprocess.run(["readelf", "-SW", obj], capture_output=True, text=True).stdout
                ln = [l for l in sec.splitlines() if ".note.GNU-stack" in l]
                ok = bool(ln) and " X " not in ln[0] and "AX" not in ln[0]
                detail += "; object assembled with the project's ASM flags has a non-executable .note.GNU-stack: %s" % ok
            else:
                ok, detail = False, "does not assemble: " + r.stderr[-300:]
        res.append({"name": "execstack:" + os.path.basename(path), "ok": ok, "kind": "syntactic / ELF header (not a solver verdict)", "detail": detail})
    return res
