"""C03 - hashing and XOF functions."""
from lib.vlib import Query
from checks.common import *

PROPERTY = "C03"
META = {
    "level": "model_checking",
    "functions": ["ascon_hash", "ascon_hasha", "ascon_xof", "ascon_xofa", "ascon_{hash,hasha}_{init,update,finalize}",
                  "ascon_{xof,xofa}_{init,init_fixed,init_custom,absorb_custom,absorb,squeeze,free}"],
    "bounds": "message length, output length, declared length, name length, customisation length concrete per query "
              "(quick: L(8) x {0,1,7,8,9,31,32,33,64}; thorough: message 0..34,64,100,257,1000, output to 1024); message, customisation and name "
              "characters symbolic; declared output length additionally FULLY symbolic (64-bit) for the non-precomputed branches; the three "
              "precomputed initial states (XOF, HASH via fixed-32, per family) are compared with the specification permutation of the generic "
              "first block by constant folding on each back end encoding (S/W/B)",
    "outside": "lengths not in the grid; names containing NUL (C strings)",
    "assumptions": ["transcript form composed with C08", "name characters non-NUL"],
    "explanation": "lock-step transcript equivalence against spec_xof/spec_cxof",
}
MANIFEST = {
    "text": "Bounded model checking of the hash/XOF code against the ASCON v1.2 sponge model and the documented cXOF construction, for every message, "
            "name and customisation at each shape, including the declared-length rules (0 / 32 / >= 2^29, symbolic 64-bit length for the generic "
            "branch) and function names longer than 32 bytes.",
    "note": "Trusted: CBMC/cadical, spec models (validated against HASH/HASHA/XOF/XOFA KATs incl. long-output files), lock-step composition.",
}
OUTS_Q = [0, 1, 7, 8, 9, 31, 32, 33, 64]


def q(fam, mode, be, mlen, outlen=32, fixlen=0, namelen=0, clen=0, form="T", tag=""):
    name = "%s:f%d:%s:%s:m%d:o%d" % ({0: "hash", 1: "xof32", 2: "xof", 3: "fixed", 4: "custom", 5: "hashinc", 6: "symlen"}[mode], fam, be, form, mlen, outlen)
    if mode in (3, 4):
        name += ":fix%d" % fixlen
    if mode in (4, 6):
        name += ":n%d:c%d" % (namelen, clen)
    defs = {"FAM": fam, "MODE": mode, "MLEN": mlen, "OUTLEN": outlen, "FIXLEN": "%dUL" % fixlen, "NAMELEN": namelen, "CLEN": clen,
            "LS_MAX": xof_calls(mlen, outlen, clen, namelen)}
    return Query(name + tag, "harness/C03/hash.c", repo_srcs=HASH_SRCS, backend=be, form=form, defs=defs,
                 shape={"family": "xofa" if fam else "xof", "mode": mode, "mlen": mlen, "outlen": outlen, "declared": fixlen, "namelen": namelen, "customlen": clen},
                 unwind=max(70, mlen + 20, outlen + 20), timeout=1200)


def queries(tier):
    qs = []
    backends = ["c64", "c32"] if tier == "quick" else ["c64", "c32", "direct", "generic", "x86asm"]
    for fam in (0, 1):
        for be in backends:
            full = tier == "thorough" and be == "c64"
            mlens = L(8) if not full else list(range(0, 35)) + [64, 100, 257, 1000]
            for m in mlens:
                qs.append(q(fam, 0, be, m))
                qs.append(q(fam, 1, be, m))
            outs = OUTS_Q if not full else sorted(set(list(range(0, 34)) + [64, 100, 1024]))
            for m in ([0, 9] if not full else [0, 7, 8, 9]):
                for o in outs:
                    qs.append(q(fam, 2, be, m, outlen=o))
            qs.append(q(fam, 5, be, 9))
            # declared lengths: precomputed branches (0, 32, >= 2^29) and generic ones
            for fl in [0, 1, 31, 32, 33, 64, (1 << 29) - 1, 1 << 29, (1 << 29) + 1, 1 << 40]:
                qs.append(q(fam, 3, be, 9, outlen=33, fixlen=fl))
            # names: none, short, exactly 32 (zero padded), 33 and 40 (hashed); customisation L(8)
            for nl in ([0, 1, 4, 31, 32, 33, 40] if (tier == "thorough" or be == "c64") else [4, 32, 33]):
                qs.append(q(fam, 4, be, 9, outlen=17, fixlen=17, namelen=nl, clen=3))
            for cl in (L(8) if (tier == "thorough" or be == "c64") else [7, 8]):
                qs.append(q(fam, 4, be, 8, outlen=9, fixlen=0, namelen=4, clen=cl))
            qs.append(q(fam, 6, be, 3, outlen=9))
            qs.append(q(fam, 6, be, 3, outlen=9, namelen=4, clen=3))
        # integrated: real permutation, also pins the precomputed IV tables against spec_permute
        for be in (["c64", "c32"] if tier == "quick" else ["c64", "c32", "direct", "generic", "x86asm"]):
            qs.append(q(fam, 0, be, 9, form="I"))
            qs.append(q(fam, 2, be, 1, outlen=9, form="I"))
            qs.append(q(fam, 3, be, 0, outlen=8, fixlen=32, form="I"))
    return qs
