"""C05 - HKDF, PBKDF2, KDF."""
from lib.vlib import Query
from checks.common import *

PROPERTY = "C05"
META = {
    "level": "model_checking",
    "functions": ["ascon_hkdf/ascon_hkdfa (+_extract,_expand)", "ascon_pbkdf2 (+ascon_pbkdf2_f)", "ascon_pbkdf2_hmac (+_f)", "ascon_kdf/ascon_kdfa (+_init)"],
    "bounds": "HKDF: salt/IKM/info lengths {0,1,33} (quick: a cross-section), outlen {0,1,31,32,33,64,65}; the 8160-byte guard with fully symbolic outlen; "
              "expand step from an ARBITRARY state (PRK, retained block, info symbolic) with the 8-bit block counter at every value 0..255 (thorough; quick {0,1,2,254,255}; reaches the 255-block boundary without iterating), posn every value 0..32 "
              "(thorough; quick {0,5,32}), request lengths {0,1,32,33,70}; PBKDF2 counts {0,1,2,3,4}, outlen {0,1,32,33,65}; KDF outlen {0,1,32,33}, custom L(8). "
              "All byte strings symbolic. Real HMAC/hash code inside, permutation abstracted (transcript form).",
    "outside": "lengths and iteration counts not in the grid (asconcrypt uses 8192 iterations: same loop, not unrolled here)",
    "assumptions": ["transcript form composed with C08", "reachable HKDF states have posn <= 32 (established by _extract and preserved by _expand, both checked)"],
    "explanation": "lock-step transcript equivalence against RFC 5869 / RFC 8018 models over spec_hmac / spec_cxof",
}
MANIFEST = {
    "text": "Bounded model checking of HKDF, PBKDF2 (both flavours) and KDF against RFC-shaped models for all inputs at each shape; the HKDF limits are "
            "decided with a symbolic output length (guard) and from an arbitrary expander state at every block-counter value (wrap, zero fill, -1).",
    "note": "Trusted: CBMC/cadical, spec models (HMAC validated against KATs; HKDF/PBKDF2/KDF models are direct transcriptions of the RFC text), lock-step composition.",
}


def prechecks(tier, run_dir):
    return kat_precheck(run_dir, [("ASCON-HMAC", "ASCON-HMAC.txt"), ("ASCON-HMACA", "ASCON-HMACA.txt"), ("ASCON-KMAC", "ASCON-KMAC.txt")])


def q(mode, be, outlen, klen=0, slen=0, ilen=0, fam=0, count=1, posn=32, form="T", ctr=1):
    mn = {0: "hkdf", 1: "hkdf_guard", 2: "hkdf_expand_step", 3: "pbkdf2", 4: "pbkdf2_hmac", 5: "kdf"}[mode]
    name = "%s:%s:%s:f%d:o%d:k%d:s%d:i%d" % (mn, be, form, fam, outlen, klen, slen, ilen)
    if mode in (3, 4):
        name += ":c%d" % count
    if mode == 2:
        name += ":p%d:ctr%d" % (posn, ctr)
    blocks = (outlen + 31) // 32
    if mode in (0, 1):
        n = hmac_calls(slen, klen) + blocks * hmac_calls(32, 33 + ilen)
    elif mode == 2:
        n = (blocks + 1) * hmac_calls(32, 33 + ilen)
    elif mode == 3:
        n = 4 + klen // 8 + blocks * ((slen + 4) // 8 + 7 + max(0, count - 1) * 11)
    elif mode == 4:
        n = blocks * (hmac_calls(klen, slen + 4) + max(0, count - 1) * hmac_calls(klen, 32))
    else:
        n = xof_calls(klen, outlen, slen, 3)
    return Query(name, "harness/C05/kdf.c", repo_srcs=KDF_SRCS, backend=be, form=form,
                 defs={"MODE": mode, "OUTLEN": outlen, "KLEN": klen, "SLEN": slen, "ILEN": ilen, "FAM": fam, "COUNT": "%dUL" % count, "POSN": posn, "CTR": ctr, "LS_MAX": n + 6},
                 shape={"fn": mn, "outlen": outlen, "keylen": klen, "saltlen": slen, "infolen": ilen, "family": fam, "count": count, "posn": posn, "counter": ctr},
                 unwind=max(300, outlen + 80), timeout=1800, mem_gb=14)


def queries(tier):
    qs = []
    backends = ["c64"] if tier == "quick" else ["c64", "c32", "direct", "generic", "x86asm"]
    for be in backends:
        full = tier == "thorough" and be == "c64"
        for fam in (0, 1):
            if full:
                hk = [(o, k, s, i) for o in [0, 1, 31, 32, 33, 64, 65] for (k, s, i) in [(0, 0, 0), (1, 1, 1), (33, 33, 33), (16, 0, 5), (20, 70, 0)]]
            else:
                hk = [(0, 16, 0, 0), (1, 1, 1, 1), (32, 16, 33, 0), (33, 33, 0, 33), (65, 20, 16, 5)]
            for o, k, s, i in hk:
                qs.append(q(0, be, o, klen=k, slen=s, ilen=i, fam=fam))
            qs.append(q(1, be, 4, klen=3, slen=2, ilen=1, fam=fam))
            for posn in (range(0, 33) if full else [0, 5, 32]):
                for o in ([0, 1, 32, 33, 70] if full or posn == 5 else [33]):
                    for ctr in ([0, 1, 2, 254, 255] if not (full and posn in (0, 5, 32) and o in (33, 70)) else range(256)):
                        qs.append(q(2, be, o, ilen=3, fam=fam, posn=posn, ctr=ctr))
            for o, k, s in ([(0, 16, 0), (1, 0, 3), (32, 16, 9), (33, 20, 8)] if not full else [(o, k, s) for o in [0, 1, 32, 33] for k in [0, 20] for s in L(8)]):
                qs.append(q(5, be, o, klen=k, slen=s, fam=fam))
        for mode in (3, 4):
            grid = [(c, o) for c in [0, 1, 2, 3, 4] for o in ([0, 1, 32, 33, 65] if full else [33])] + [(1, 0), (2, 65), (1, 32)]
            for c, o in sorted(set(grid)):
                qs.append(q(mode, be, o, klen=9, slen=5, count=c))
            qs.append(q(mode, be, 33, klen=0, slen=0, count=2))
            if mode == 4:
                qs.append(q(mode, be, 32, klen=70, slen=16, count=2))
    qs.append(q(3, "c64", 1, klen=1, slen=1, count=1, form="I"))
    qs.append(q(5, "c64", 9, klen=3, slen=3, form="I"))
    return qs
