/* Reference models ("oracles") written from the documents the properties cite.
 * Deliberately byte-at-a-time and table/paper shaped; speed is irrelevant.
 *
 * Canonical state: five 64-bit words x[0..4]; byte i of the 40-byte big-endian
 * state is bits 63-8*(i%8) .. 56-8*(i%8) of x[i/8].
 *
 * spec_permute  : the ASCON permutation p^(12-first_round), literal p_C, p_S, p_L.
 * spec_P        : the permutation *as used by the mode models*.  Supplied by the
 *                 harness glue: either spec_permute (integrated form) or the
 *                 lock-step replayer (transcript form, see lockstep.c).
 */
#ifndef VERIF_SPEC_H
#define VERIF_SPEC_H
#include <stdint.h>
#include <stddef.h>

void spec_permute(uint64_t x[5], unsigned first_round);
void spec_round(uint64_t x[5], unsigned round);          /* one round, round = 0..11 */
void spec_sbox_table_layer(uint64_t x[5]);                /* p_S through the 5-bit table of the paper */
void spec_sbox_sliced_layer(uint64_t x[5]);               /* p_S through the bit-sliced formula of the paper */
extern void spec_P(uint64_t x[5], unsigned first_round);

/* byte view of the canonical state */
uint8_t sx_get(const uint64_t x[5], unsigned off);
void sx_set(uint64_t x[5], unsigned off, uint8_t v);
void sx_xor(uint64_t x[5], unsigned off, uint8_t v);

/* ---- AEAD (ASCON v1.2 section 2.4) ---- */
enum { SPEC_A128 = 0, SPEC_A128A = 1, SPEC_A80PQ = 2 };
unsigned spec_aead_klen(int alg);
unsigned spec_aead_rate(int alg);
/* iv_xor: value XORed into the first IV byte (0 for the standard modes; SIV uses 1 and 2) */
void spec_aead_init(uint64_t x[5], int alg, const uint8_t *k, const uint8_t *npub, uint8_t iv_xor);
void spec_aead_absorb_ad(uint64_t x[5], int alg, const uint8_t *ad, size_t adlen);
void spec_aead_finalize(uint64_t x[5], int alg, const uint8_t *k, uint8_t tag[16]);
void spec_aead_encrypt(int alg, uint8_t *c, uint8_t tag[16], const uint8_t *m, size_t mlen,
                       const uint8_t *ad, size_t adlen, const uint8_t *npub, const uint8_t *k);
/* decrypts c (mlen bytes, without tag) and returns the tag the spec computes */
void spec_aead_decrypt(int alg, uint8_t *m, uint8_t tag[16], const uint8_t *c, size_t mlen,
                       const uint8_t *ad, size_t adlen, const uint8_t *npub, const uint8_t *k);

/* ---- sponge for HASH / XOF / cXOF ---- */
typedef struct {
    uint64_t x[5];
    unsigned pos;        /* bytes of the current rate block already used */
    unsigned rate;       /* 8 (hash family), 32 (PRF absorb) ... */
    unsigned b_round;    /* first_round of the intermediate permutation p^b */
    int squeezing;
    int eager;           /* implementation permutes right after a full squeezed block */
} spec_sponge_t;

/* family: 0 = XOF/HASH (b = 12), 1 = XOFA/HASHA (b = 8).
 * outbits: value of the low 32 bits of the IV (0 = arbitrary).
 * name32: NULL or 32 bytes placed in state bytes 8..39 (cXOF function name block).
 * abstract_first: nonzero = the first permutation goes through spec_P (the
 *   implementation really calls the permutation there); zero = spec_permute
 *   (the implementation uses a precomputed constant). */
void spec_xof_init(spec_sponge_t *s, int family, uint32_t outbits, const uint8_t *name32, int abstract_first);
void spec_xof_absorb(spec_sponge_t *s, const uint8_t *in, size_t len);
void spec_xof_custom(spec_sponge_t *s, const uint8_t *custom, size_t len);   /* doc/cxof.dox */
void spec_xof_squeeze(spec_sponge_t *s, uint8_t *out, size_t len);
/* one-shot helpers */
void spec_hash(int family, uint8_t out[32], const uint8_t *in, size_t len);           /* ASCON-HASH / HASHA */
void spec_xof(int family, uint8_t *out, size_t outlen, const uint8_t *in, size_t len);/* ASCON-XOF / XOFA */
/* function name block per doc/cxof.dox: <=32 chars zero padded, else HASH(name) */
void spec_cxof_name_block(int family, uint8_t blk[32], const char *name, size_t namelen);

/* ---- ASCON-PRF family (Dobraunig et al., "Ascon PRF, MAC, and Short-Input MAC") ---- */
void spec_prf(uint8_t *out, size_t outlen, uint32_t outbits_iv, const uint8_t *in, size_t inlen, const uint8_t k[16]);
int  spec_prf_short(uint8_t *out, size_t outlen, const uint8_t *in, size_t inlen, const uint8_t k[16]);
void spec_mac(uint8_t tag[16], const uint8_t *in, size_t inlen, const uint8_t k[16]);

/* ---- RFC 2104 HMAC over ASCON-HASH/HASHA, block 64 ---- */
void spec_hmac(int family, uint8_t out[32], const uint8_t *key, size_t keylen, const uint8_t *in, size_t inlen);

/* ---- RFC 5869 HKDF over spec_hmac; RFC 8018 PBKDF2 over the documented cXOF PRF / over HMAC ---- */
#define SPEC_HKDF_MAX_INFO 64
#define SPEC_PBKDF2_MAX_SALT 64
int spec_hkdf(int family, uint8_t *out, size_t outlen, const uint8_t *ikm, size_t ikmlen,
              const uint8_t *salt, size_t saltlen, const uint8_t *info, size_t infolen);
void spec_pbkdf2(uint8_t *out, size_t outlen, const uint8_t *pw, size_t pwlen,
                 const uint8_t *salt, size_t saltlen, unsigned long count);
void spec_pbkdf2_hmac(uint8_t *out, size_t outlen, const uint8_t *pw, size_t pwlen,
                      const uint8_t *salt, size_t saltlen, unsigned long count);

/* ---- KMAC / KDF : cXOF("KMAC"|"KDF", custom, outlen) over key || message ---- */
void spec_kmac(int family, uint8_t *out, size_t outlen, const uint8_t *key, size_t keylen,
               const uint8_t *in, size_t inlen, const uint8_t *custom, size_t customlen, int init_precomputed);
void spec_kdf(int family, uint8_t *out, size_t outlen, const uint8_t *key, size_t keylen,
              const uint8_t *custom, size_t customlen);

/* ---- SIV (doc/siv.dox) ---- */
void spec_siv_encrypt(int alg, uint8_t *c, uint8_t tag[16], const uint8_t *m, size_t mlen,
                      const uint8_t *ad, size_t adlen, const uint8_t *npub, const uint8_t *k);
/* implementation order: keystream pass first, then authentication */
void spec_siv_decrypt(int alg, uint8_t *m, uint8_t tag[16], const uint8_t *c, size_t mlen, const uint8_t *tag_in,
                      const uint8_t *ad, size_t adlen, const uint8_t *npub, const uint8_t *k);

/* ---- ISAP v2.0 (ISAP-A-128A, ISAP-A-128; 80PQ = same scheme, 160-bit key) ---- */
enum { SPEC_ISAP_128A = 0, SPEC_ISAP_128 = 1, SPEC_ISAP_80PQ = 2 };
typedef struct { uint64_t ke[5], ka[5]; } spec_isap_key_t;
void spec_isap_init(int alg, spec_isap_key_t *pk, const uint8_t *k);     /* p_K(K || IV_KE), p_K(K || IV_KA) */
void spec_isap_crypt(int alg, uint8_t *out, const uint8_t *in, size_t len, const uint8_t *npub, const spec_isap_key_t *pk);
void spec_isap_mac(int alg, uint8_t tag[16], const uint8_t *c, size_t clen,
                   const uint8_t *ad, size_t adlen, const uint8_t *npub, const spec_isap_key_t *pk);

#endif
