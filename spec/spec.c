/* Reference models.  See spec.h.  Sources:
 *   ASCON v1.2 submission (Dobraunig, Eichlseder, Mendel, Schlaeffer), sections 2.2-2.6
 *   "Ascon PRF, MAC, and Short-Input MAC" (same authors)
 *   ISAP v2.0 specification
 *   RFC 2104, doc/cxof.dox, doc/kmac.dox, doc/siv.dox of the repository
 */
#include "spec.h"
#include <string.h>

/* ------------------------------------------------------------------ */
/* Permutation                                                         */

static uint64_t ror64(uint64_t v, unsigned n) { return (v >> n) | (v << (64 - n)); }

/* 5-bit S-box of the ASCON paper (table 5 / figure 4a) */
static const uint8_t SPEC_SBOX[32] = {
    0x04, 0x0b, 0x1f, 0x14, 0x1a, 0x15, 0x09, 0x02, 0x1b, 0x05, 0x08, 0x12, 0x1d, 0x03, 0x06, 0x1c,
    0x1e, 0x13, 0x07, 0x0e, 0x00, 0x0d, 0x11, 0x18, 0x10, 0x0c, 0x01, 0x19, 0x16, 0x0a, 0x0f, 0x17
};

void spec_sbox_table_layer(uint64_t x[5])
{
    uint64_t y[5] = {0, 0, 0, 0, 0};
    unsigned col, i;
    for (col = 0; col < 64; ++col) {
        unsigned in = 0, out;
        for (i = 0; i < 5; ++i)     /* x0 is the most significant bit of the column */
            in |= (unsigned)((x[i] >> col) & 1U) << (4 - i);
        out = SPEC_SBOX[in];
        for (i = 0; i < 5; ++i)
            y[i] |= (uint64_t)((out >> (4 - i)) & 1U) << col;
    }
    for (i = 0; i < 5; ++i)
        x[i] = y[i];
}

/* bit-sliced instructions of figure 5 of the paper */
void spec_sbox_sliced_layer(uint64_t x[5])
{
    uint64_t x0 = x[0], x1 = x[1], x2 = x[2], x3 = x[3], x4 = x[4];
    uint64_t t0, t1, t2, t3, t4;
    x0 ^= x4; x4 ^= x3; x2 ^= x1;
    t0 = x0; t1 = x1; t2 = x2; t3 = x3; t4 = x4;
    t0 = ~t0; t1 = ~t1; t2 = ~t2; t3 = ~t3; t4 = ~t4;
    t0 &= x1; t1 &= x2; t2 &= x3; t3 &= x4; t4 &= x0;
    x0 ^= t1; x1 ^= t2; x2 ^= t3; x3 ^= t4; x4 ^= t0;
    x1 ^= x0; x0 ^= x4; x3 ^= x2; x2 = ~x2;
    x[0] = x0; x[1] = x1; x[2] = x2; x[3] = x3; x[4] = x4;
}

void spec_round(uint64_t x[5], unsigned round)
{
    /* p_C: constant for round i of p^12 is ((0xf - i) << 4) | i */
    x[2] ^= (uint64_t)(((0xfU - round) << 4) | round);
    /* p_S */
    spec_sbox_sliced_layer(x);
    /* p_L */
    x[0] ^= ror64(x[0], 19) ^ ror64(x[0], 28);
    x[1] ^= ror64(x[1], 61) ^ ror64(x[1], 39);
    x[2] ^= ror64(x[2], 1) ^ ror64(x[2], 6);
    x[3] ^= ror64(x[3], 10) ^ ror64(x[3], 17);
    x[4] ^= ror64(x[4], 7) ^ ror64(x[4], 41);
}

void spec_permute(uint64_t x[5], unsigned first_round)
{
    unsigned r;
    for (r = first_round; r < 12; ++r)
        spec_round(x, r);
}

/* ------------------------------------------------------------------ */
/* byte view                                                           */

uint8_t sx_get(const uint64_t x[5], unsigned off)
{
    return (uint8_t)(x[off >> 3] >> (56 - 8 * (off & 7)));
}
void sx_xor(uint64_t x[5], unsigned off, uint8_t v)
{
    x[off >> 3] ^= ((uint64_t)v) << (56 - 8 * (off & 7));
}
void sx_set(uint64_t x[5], unsigned off, uint8_t v)
{
    x[off >> 3] &= ~(((uint64_t)0xff) << (56 - 8 * (off & 7)));
    x[off >> 3] |= ((uint64_t)v) << (56 - 8 * (off & 7));
}
static void sx_zero(uint64_t x[5])
{
    x[0] = 0; x[1] = 0; x[2] = 0; x[3] = 0; x[4] = 0;
}

/* ------------------------------------------------------------------ */
/* AEAD                                                                */

unsigned spec_aead_klen(int alg) { return alg == SPEC_A80PQ ? 20 : 16; }
unsigned spec_aead_rate(int alg) { return alg == SPEC_A128A ? 16 : 8; }
static unsigned spec_aead_b(int alg) { return alg == SPEC_A128A ? 4 : 6; } /* first_round of p^b */

void spec_aead_init(uint64_t x[5], int alg, const uint8_t *k, const uint8_t *npub, uint8_t iv_xor)
{
    unsigned klen = spec_aead_klen(alg), i, pos = 0;
    static const uint8_t iv128[8]  = {0x80, 0x40, 0x0c, 0x06, 0, 0, 0, 0};
    static const uint8_t iv128a[8] = {0x80, 0x80, 0x0c, 0x08, 0, 0, 0, 0};
    static const uint8_t iv80pq[4] = {0xa0, 0x40, 0x0c, 0x06};
    sx_zero(x);
    if (alg == SPEC_A80PQ) {
        for (i = 0; i < 4; ++i) sx_set(x, pos++, iv80pq[i]);
    } else {
        for (i = 0; i < 8; ++i) sx_set(x, pos++, alg == SPEC_A128 ? iv128[i] : iv128a[i]);
    }
    sx_xor(x, 0, iv_xor);
    for (i = 0; i < klen; ++i) sx_set(x, pos++, k[i]);
    for (i = 0; i < 16; ++i) sx_set(x, pos++, npub[i]);
    spec_P(x, 0);
    for (i = 0; i < klen; ++i) sx_xor(x, 40 - klen + i, k[i]);
}

static void spec_absorb_padded(uint64_t x[5], unsigned rate, unsigned b_round,
                               const uint8_t *d, size_t len, int last_permute)
{
    /* blocks of `rate` bytes, 10* padding; permutation after every block,
     * after the last one only if last_permute */
    unsigned pos = 0;
    size_t i;
    for (i = 0; i < len; ++i) {
        sx_xor(x, pos++, d[i]);
        if (pos == rate) {
            spec_P(x, b_round);
            pos = 0;
        }
    }
    sx_xor(x, pos, 0x80);
    if (last_permute)
        spec_P(x, b_round);
}

void spec_aead_absorb_ad(uint64_t x[5], int alg, const uint8_t *ad, size_t adlen)
{
    if (adlen > 0)
        spec_absorb_padded(x, spec_aead_rate(alg), spec_aead_b(alg), ad, adlen, 1);
    sx_xor(x, 39, 0x01);
}

void spec_aead_finalize(uint64_t x[5], int alg, const uint8_t *k, uint8_t tag[16])
{
    unsigned klen = spec_aead_klen(alg), rate = spec_aead_rate(alg), i;
    for (i = 0; i < klen; ++i) sx_xor(x, rate + i, k[i]);
    spec_P(x, 0);
    for (i = 0; i < 16; ++i) tag[i] = sx_get(x, 24 + i) ^ k[klen - 16 + i];
}

void spec_aead_encrypt(int alg, uint8_t *c, uint8_t tag[16], const uint8_t *m, size_t mlen,
                       const uint8_t *ad, size_t adlen, const uint8_t *npub, const uint8_t *k)
{
    uint64_t x[5];
    unsigned rate = spec_aead_rate(alg), pos = 0;
    size_t i;
    spec_aead_init(x, alg, k, npub, 0);
    spec_aead_absorb_ad(x, alg, ad, adlen);
    for (i = 0; i < mlen; ++i) {
        sx_xor(x, pos, m[i]);
        c[i] = sx_get(x, pos);
        ++pos;
        if (pos == rate) { spec_P(x, spec_aead_b(alg)); pos = 0; }
    }
    sx_xor(x, pos, 0x80);
    spec_aead_finalize(x, alg, k, tag);
}

void spec_aead_decrypt(int alg, uint8_t *m, uint8_t tag[16], const uint8_t *c, size_t mlen,
                       const uint8_t *ad, size_t adlen, const uint8_t *npub, const uint8_t *k)
{
    uint64_t x[5];
    unsigned rate = spec_aead_rate(alg), pos = 0;
    size_t i;
    spec_aead_init(x, alg, k, npub, 0);
    spec_aead_absorb_ad(x, alg, ad, adlen);
    for (i = 0; i < mlen; ++i) {
        uint8_t ci = c[i];
        m[i] = sx_get(x, pos) ^ ci;
        sx_set(x, pos, ci);
        ++pos;
        if (pos == rate) { spec_P(x, spec_aead_b(alg)); pos = 0; }
    }
    sx_xor(x, pos, 0x80);
    spec_aead_finalize(x, alg, k, tag);
}

/* ------------------------------------------------------------------ */
/* HASH / XOF / cXOF                                                   */

void spec_xof_init(spec_sponge_t *s, int family, uint32_t outbits, const uint8_t *name32, int abstract_first)
{
    unsigned i;
    sx_zero(s->x);
    /* IV = k(0) || rate 64 || a 12 || a-b || output bits */
    s->x[0] = ((uint64_t)0x00400c00 << 32) | ((uint64_t)(family ? 0x04 : 0x00) << 32) | outbits;
    if (name32)
        for (i = 0; i < 32; ++i) sx_set(s->x, 8 + i, name32[i]);
    if (abstract_first) spec_P(s->x, 0); else spec_permute(s->x, 0);
    s->pos = 0;
    s->rate = 8;
    s->b_round = family ? 4 : 0;
    s->squeezing = 0;
    s->eager = family ? 1 : 0;
}

void spec_xof_absorb(spec_sponge_t *s, const uint8_t *in, size_t len)
{
    size_t i;
    for (i = 0; i < len; ++i) {
        sx_xor(s->x, s->pos++, in[i]);
        if (s->pos == s->rate) { spec_P(s->x, s->b_round); s->pos = 0; }
    }
}

void spec_xof_custom(spec_sponge_t *s, const uint8_t *custom, size_t len)
{
    /* doc/cxof.dox: C is absorbed (padded) before X; afterwards the last bit
     * of the state is inverted; nothing happens for an empty C. */
    if (len == 0)
        return;
    spec_xof_absorb(s, custom, len);
    sx_xor(s->x, s->pos, 0x80);
    spec_P(s->x, s->b_round);   /* p^b of the family: 12 rounds for XOF, 8 for XOFA (fixed by the KMACA KAT) */
    sx_xor(s->x, 39, 0x01);
    s->pos = 0;
}

void spec_xof_squeeze(spec_sponge_t *s, uint8_t *out, size_t len)
{
    size_t i;
    if (!s->squeezing) {
        sx_xor(s->x, s->pos, 0x80);
        s->squeezing = 1;
        /* p^a after the last block; lazily for the XOF family (only when a
         * byte is wanted), at once for the XOFA family, as the code does */
        s->pos = s->rate;       /* "block exhausted" */
        if (s->eager) { spec_P(s->x, 0); s->pos = 0; s->b_round = 4; }
        else s->b_round = 0;
    }
    for (i = 0; i < len; ++i) {
        if (s->pos == s->rate) { spec_P(s->x, s->b_round); s->pos = 0; }
        out[i] = sx_get(s->x, s->pos++);
        if (s->eager && s->pos == s->rate) { spec_P(s->x, s->b_round); s->pos = 0; }
    }
}

void spec_hash(int family, uint8_t out[32], const uint8_t *in, size_t len)
{
    spec_sponge_t s;
    spec_xof_init(&s, family, 256, 0, 0);
    spec_xof_absorb(&s, in, len);
    spec_xof_squeeze(&s, out, 32);
}

void spec_xof(int family, uint8_t *out, size_t outlen, const uint8_t *in, size_t len)
{
    spec_sponge_t s;
    spec_xof_init(&s, family, 0, 0, 0);
    spec_xof_absorb(&s, in, len);
    spec_xof_squeeze(&s, out, outlen);
}

void spec_cxof_name_block(int family, uint8_t blk[32], const char *name, size_t namelen)
{
    size_t i;
    if (namelen <= 32) {
        for (i = 0; i < 32; ++i) blk[i] = i < namelen ? (uint8_t)name[i] : 0;
    } else {
        spec_hash(family, blk, (const uint8_t *)name, namelen);
    }
}

/* ------------------------------------------------------------------ */
/* PRF / MAC / PrfShort                                                */

void spec_prf(uint8_t *out, size_t outlen, uint32_t outbits_iv, const uint8_t *in, size_t inlen, const uint8_t k[16])
{
    /* IV = k=128 || r_out=128 || (1<<7 | a=12) || 0 || output bits (32) */
    uint64_t x[5];
    unsigned pos = 0, i;
    size_t j;
    sx_zero(x);
    x[0] = ((uint64_t)0x80808c00 << 32) | outbits_iv;
    for (i = 0; i < 16; ++i) sx_set(x, 8 + i, k[i]);
    spec_P(x, 0);
    /* absorb with rate 256, 10* padding, then domain separation bit */
    for (j = 0; j < inlen; ++j) {
        sx_xor(x, pos++, in[j]);
        if (pos == 32) { spec_P(x, 0); pos = 0; }
    }
    sx_xor(x, pos, 0x80);
    sx_xor(x, 39, 0x01);
    /* squeeze with rate 128 */
    pos = 16;
    for (j = 0; j < outlen; ++j) {
        if (pos == 16) { spec_P(x, 0); pos = 0; }
        out[j] = sx_get(x, pos++);
    }
}

void spec_mac(uint8_t tag[16], const uint8_t *in, size_t inlen, const uint8_t k[16])
{
    spec_prf(tag, 16, 128, in, inlen, k);
}

int spec_prf_short(uint8_t *out, size_t outlen, const uint8_t *in, size_t inlen, const uint8_t k[16])
{
    /* IV = k=128 || input bits || (1<<6 | a=12) || output size 128 || 0^32 ;
     * state = IV || K || M || 0* ; p^12 ; T = (S_128 lsb ^ K) truncated */
    uint64_t x[5];
    unsigned i;
    if (inlen > 16 || outlen > 16)
        return -1;
    sx_zero(x);
    sx_set(x, 0, 0x80);
    sx_set(x, 1, (uint8_t)(inlen * 8));
    sx_set(x, 2, 0x4c);
    sx_set(x, 3, 0x80);
    for (i = 0; i < 16; ++i) sx_set(x, 8 + i, k[i]);
    for (i = 0; i < inlen; ++i) sx_set(x, 24 + i, in[i]);
    spec_P(x, 0);
    for (i = 0; i < outlen; ++i) out[i] = sx_get(x, 24 + i) ^ k[i];
    return 0;
}

/* ------------------------------------------------------------------ */
/* HMAC (RFC 2104), B = 64, L = 32                                     */

void spec_hmac(int family, uint8_t out[32], const uint8_t *key, size_t keylen, const uint8_t *in, size_t inlen)
{
    /* H((K0 ^ opad) || H((K0 ^ ipad) || text)), K0 = key zero-padded to B, or
     * H(key) zero-padded when the key is longer than B.  K0 is derived again
     * before the outer hash (same value): that is the order in which the
     * implementation evaluates the permutation. */
    uint8_t k0[64], inner[32];
    spec_sponge_t s;
    unsigned i, pass;
    for (pass = 0; pass < 2; ++pass) {
        for (i = 0; i < 64; ++i) k0[i] = 0;
        if (keylen > 64) {
            spec_hash(family, k0, key, keylen);
        } else {
            for (i = 0; i < keylen; ++i) k0[i] = key[i];
        }
        for (i = 0; i < 64; ++i) k0[i] ^= pass == 0 ? 0x36 : 0x5c;
        spec_xof_init(&s, family, 256, 0, 0);
        spec_xof_absorb(&s, k0, 64);
        if (pass == 0) {
            spec_xof_absorb(&s, in, inlen);
            spec_xof_squeeze(&s, inner, 32);
        } else {
            spec_xof_absorb(&s, inner, 32);
            spec_xof_squeeze(&s, out, 32);
        }
    }
}

/* ------------------------------------------------------------------ */
/* HKDF (RFC 5869) over spec_hmac, HashLen = 32                         */

int spec_hkdf(int family, uint8_t *out, size_t outlen, const uint8_t *ikm, size_t ikmlen,
              const uint8_t *salt, size_t saltlen, const uint8_t *info, size_t infolen)
{
    uint8_t prk[32], t[32], msg[32 + SPEC_HKDF_MAX_INFO + 1];
    size_t done = 0, n, i;
    unsigned counter = 1;
    if (outlen > 255 * 32)
        return -1;
    /* extract: PRK = HMAC(salt, IKM); an absent salt is HashLen zero bytes,
     * which HMAC's zero padding makes identical to the empty key */
    spec_hmac(family, prk, salt, saltlen, ikm, ikmlen);
    /* expand: T(i) = HMAC(PRK, T(i-1) | info | i) */
    while (done < outlen) {
        n = 0;
        if (counter > 1) for (i = 0; i < 32; ++i) msg[n++] = t[i];
        for (i = 0; i < infolen; ++i) msg[n++] = info[i];
        msg[n++] = (uint8_t)counter;
        spec_hmac(family, t, prk, 32, msg, n);
        for (i = 0; i < 32 && done < outlen; ++i) out[done++] = t[i];
        ++counter;
    }
    return 0;
}

/* ------------------------------------------------------------------ */
/* PBKDF2 (RFC 8018 section 5.2)                                       */

void spec_pbkdf2(uint8_t *out, size_t outlen, const uint8_t *pw, size_t pwlen,
                 const uint8_t *salt, size_t saltlen, unsigned long count)
{
    /* PRF(P, X) = cXOF("PBKDF2", customisation = P, 32-byte output)(X); the keyed
     * initial state is computed once and copied (a deterministic function of P) */
    uint8_t name[32], u[32], t[32], b[4];
    spec_sponge_t base, s;
    unsigned long blk = 1, c;
    size_t done = 0, i;
    spec_cxof_name_block(0, name, "PBKDF2", 6);
    spec_xof_init(&base, 0, 256, name, 1);
    spec_xof_custom(&base, pw, pwlen);
    if (count == 0) count = 1;
    while (done < outlen) {
        b[0] = (uint8_t)(blk >> 24); b[1] = (uint8_t)(blk >> 16); b[2] = (uint8_t)(blk >> 8); b[3] = (uint8_t)blk;
        s = base;
        spec_xof_absorb(&s, salt, saltlen);
        spec_xof_absorb(&s, b, 4);
        spec_xof_squeeze(&s, u, 32);
        for (i = 0; i < 32; ++i) t[i] = u[i];
        for (c = 1; c < count; ++c) {
            s = base;
            spec_xof_absorb(&s, u, 32);
            spec_xof_squeeze(&s, u, 32);
            for (i = 0; i < 32; ++i) t[i] ^= u[i];
        }
        for (i = 0; i < 32 && done < outlen; ++i) out[done++] = t[i];
        ++blk;
    }
}

void spec_pbkdf2_hmac(uint8_t *out, size_t outlen, const uint8_t *pw, size_t pwlen,
                      const uint8_t *salt, size_t saltlen, unsigned long count)
{
    uint8_t u[32], t[32], msg[SPEC_PBKDF2_MAX_SALT + 4];
    unsigned long blk = 1, c;
    size_t done = 0, i;
    if (count == 0) count = 1;
    while (done < outlen) {
        for (i = 0; i < saltlen; ++i) msg[i] = salt[i];
        msg[saltlen] = (uint8_t)(blk >> 24); msg[saltlen + 1] = (uint8_t)(blk >> 16);
        msg[saltlen + 2] = (uint8_t)(blk >> 8); msg[saltlen + 3] = (uint8_t)blk;
        spec_hmac(0, u, pw, pwlen, msg, saltlen + 4);
        for (i = 0; i < 32; ++i) t[i] = u[i];
        for (c = 1; c < count; ++c) {
            spec_hmac(0, u, pw, pwlen, u, 32);
            for (i = 0; i < 32; ++i) t[i] ^= u[i];
        }
        for (i = 0; i < 32 && done < outlen; ++i) out[done++] = t[i];
        ++blk;
    }
}

/* ------------------------------------------------------------------ */
/* KMAC / KDF                                                          */

static uint32_t spec_outbits(size_t outlen)
{
    /* declared output length in bits; 2^29 bytes and above mean "arbitrary" */
    if (outlen >= ((size_t)1 << 29))
        return 0;
    return (uint32_t)(outlen * 8);
}

void spec_kmac(int family, uint8_t *out, size_t outlen, const uint8_t *key, size_t keylen,
               const uint8_t *in, size_t inlen, const uint8_t *custom, size_t customlen, int init_precomputed)
{
    uint8_t name[32];
    spec_sponge_t s;
    spec_cxof_name_block(family, name, "KMAC", 4);
    spec_xof_init(&s, family, spec_outbits(outlen), name, !init_precomputed);
    spec_xof_custom(&s, custom, customlen);
    spec_xof_absorb(&s, key, keylen);
    spec_xof_absorb(&s, in, inlen);
    spec_xof_squeeze(&s, out, outlen);
}

void spec_kdf(int family, uint8_t *out, size_t outlen, const uint8_t *key, size_t keylen,
              const uint8_t *custom, size_t customlen)
{
    uint8_t name[32];
    spec_sponge_t s;
    spec_cxof_name_block(family, name, "KDF", 3);
    spec_xof_init(&s, family, spec_outbits(outlen), name, 1);
    spec_xof_custom(&s, custom, customlen);
    spec_xof_absorb(&s, key, keylen);
    spec_xof_squeeze(&s, out, outlen);
}

/* ------------------------------------------------------------------ */
/* SIV (doc/siv.dox)                                                   */

static void spec_siv_auth(int alg, uint8_t tag[16], const uint8_t *m, size_t mlen,
                          const uint8_t *ad, size_t adlen, const uint8_t *npub, const uint8_t *k)
{
    uint64_t x[5];
    spec_aead_init(x, alg, k, npub, 0x01);
    spec_aead_absorb_ad(x, alg, ad, adlen);
    /* padded plaintext absorbed like associated data; the permutation is not
     * applied after the final padded block (finalisation follows directly) */
    spec_absorb_padded(x, spec_aead_rate(alg), spec_aead_b(alg), m, mlen, 0);
    spec_aead_finalize(x, alg, k, tag);
}

static void spec_siv_stream(int alg, uint8_t *out, const uint8_t *in, size_t len,
                            const uint8_t tag[16], const uint8_t *k)
{
    /* OFB: key stream block i = first `rate` bytes of the state after i+1
     * applications of p^b to the initialised state */
    uint64_t x[5];
    unsigned rate = spec_aead_rate(alg), pos = rate;
    size_t i;
    spec_aead_init(x, alg, k, tag, 0x02);
    for (i = 0; i < len; ++i) {
        if (pos == rate) { spec_P(x, spec_aead_b(alg)); pos = 0; }
        out[i] = in[i] ^ sx_get(x, pos++);
    }
}

void spec_siv_encrypt(int alg, uint8_t *c, uint8_t tag[16], const uint8_t *m, size_t mlen,
                      const uint8_t *ad, size_t adlen, const uint8_t *npub, const uint8_t *k)
{
    spec_siv_auth(alg, tag, m, mlen, ad, adlen, npub, k);
    spec_siv_stream(alg, c, m, mlen, tag, k);
}

void spec_siv_decrypt(int alg, uint8_t *m, uint8_t tag[16], const uint8_t *c, size_t mlen, const uint8_t *tag_in,
                      const uint8_t *ad, size_t adlen, const uint8_t *npub, const uint8_t *k)
{
    spec_siv_stream(alg, m, c, mlen, tag_in, k);
    spec_siv_auth(alg, tag, m, mlen, ad, adlen, npub, k);
}

/* ------------------------------------------------------------------ */
/* ISAP v2.0                                                           */

static unsigned isap_klen(int alg) { return alg == SPEC_ISAP_80PQ ? 20 : 16; }
static unsigned isap_sH(int alg) { (void)alg; return 12; }
static unsigned isap_sB(int alg) { return alg == SPEC_ISAP_128A ? 1 : 12; }
static unsigned isap_sE(int alg) { return alg == SPEC_ISAP_128A ? 6 : 12; }
static unsigned isap_sK(int alg) { (void)alg; return 12; }

static void isap_iv(int alg, uint8_t iv[8], uint8_t kind)
{
    iv[0] = kind;
    iv[1] = (uint8_t)(isap_klen(alg) * 8);
    iv[2] = 64;
    iv[3] = 1;
    iv[4] = (uint8_t)isap_sH(alg);
    iv[5] = (uint8_t)isap_sB(alg);
    iv[6] = (uint8_t)isap_sE(alg);
    iv[7] = (uint8_t)isap_sK(alg);
}

/* ISAP_RK(K, f, Y) = absorb the bits of Y one at a time into p_K(K || IV_f || 0*).
 * The key-dependent first step p_K(K || IV_f) is what the library pre-computes
 * (isap_aead_init); it is split out so that both sides evaluate the permutation
 * in the same order. */
void spec_isap_init(int alg, spec_isap_key_t *pk, const uint8_t *k)
{
    uint8_t iv[8];
    unsigned klen = isap_klen(alg), i;
    sx_zero(pk->ke);
    isap_iv(alg, iv, 0x03);
    for (i = 0; i < klen; ++i) sx_set(pk->ke, i, k[i]);
    for (i = 0; i < 8; ++i) sx_set(pk->ke, klen + i, iv[i]);
    spec_P(pk->ke, 12 - isap_sK(alg));
    sx_zero(pk->ka);
    isap_iv(alg, iv, 0x02);
    for (i = 0; i < klen; ++i) sx_set(pk->ka, i, k[i]);
    for (i = 0; i < 8; ++i) sx_set(pk->ka, klen + i, iv[i]);
    spec_P(pk->ka, 12 - isap_sK(alg));
}

static void isap_rk(int alg, uint64_t x[5], const uint64_t pre[5], const uint8_t *y, unsigned ylen)
{
    unsigned i, bits = ylen * 8;
    for (i = 0; i < 5; ++i) x[i] = pre[i];
    for (i = 0; i < bits; ++i) {
        uint8_t bit = (uint8_t)((y[i / 8] >> (7 - (i % 8))) & 1);
        sx_xor(x, 0, (uint8_t)(bit << 7));
        if (i + 1 < bits) spec_P(x, 12 - isap_sB(alg));
        else spec_P(x, 12 - isap_sK(alg));
    }
}

void spec_isap_crypt(int alg, uint8_t *out, const uint8_t *in, size_t len, const uint8_t *npub, const spec_isap_key_t *pk)
{
    uint64_t x[5];
    unsigned i, pos = 8;
    size_t j;
    isap_rk(alg, x, pk->ke, npub, 16);
    for (i = 0; i < 16; ++i) sx_set(x, 24 + i, npub[i]);   /* Ke* (n-k' bits) || N */
    for (j = 0; j < len; ++j) {
        if (pos == 8) { spec_P(x, 12 - isap_sE(alg)); pos = 0; }
        out[j] = in[j] ^ sx_get(x, pos++);
    }
}

void spec_isap_mac(int alg, uint8_t tag[16], const uint8_t *c, size_t clen,
                   const uint8_t *ad, size_t adlen, const uint8_t *npub, const spec_isap_key_t *pk)
{
    uint64_t x[5], y[5];
    uint8_t iv[8], yb[20];
    unsigned klen = isap_klen(alg), i;
    sx_zero(x);
    isap_iv(alg, iv, 0x01);
    for (i = 0; i < 16; ++i) sx_set(x, i, npub[i]);
    for (i = 0; i < 8; ++i) sx_set(x, 16 + i, iv[i]);
    spec_P(x, 12 - isap_sH(alg));
    spec_absorb_padded(x, 8, 12 - isap_sH(alg), ad, adlen, 1);
    sx_xor(x, 39, 0x01);
    spec_absorb_padded(x, 8, 12 - isap_sH(alg), c, clen, 1);
    for (i = 0; i < klen; ++i) yb[i] = sx_get(x, i);
    isap_rk(alg, y, pk->ka, yb, klen);
    for (i = 0; i < klen; ++i) sx_set(x, i, sx_get(y, i));
    spec_P(x, 12 - isap_sH(alg));
    for (i = 0; i < 16; ++i) tag[i] = sx_get(x, i);
}
