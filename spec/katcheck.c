/* Native validation of the reference models against the repository's own
 * KAT files (test/kat/ *.txt).  Not a deciding step: it only establishes that the
 * oracles used by the solver queries are the functions the KATs describe.
 * usage: katcheck <ALG> <file>     exit 0 = every vector matched */
#include "spec.h"
#include <stdio.h>
#include <stdlib.h>
#include <string.h>

void spec_P(uint64_t x[5], unsigned first_round) { spec_permute(x, first_round); }

#define MAXF 8
#define MAXB 4096
static char fname[MAXF][16];
static unsigned char fval[MAXF][MAXB];
static size_t flen[MAXF];
static int nf;

static int field(const char *n) { int i; for (i = 0; i < nf; ++i) if (!strcmp(fname[i], n)) return i; return -1; }
static unsigned char *F(const char *n) { int i = field(n); return i < 0 ? (unsigned char *)"" : fval[i]; }
static size_t L(const char *n) { int i = field(n); return i < 0 ? 0 : flen[i]; }

static int process(const char *alg, long count)
{
    static unsigned char out[MAXB + 64], tag[16];
    const unsigned char *exp; size_t explen, outlen = 0;
    int a;
    if ((a = !strcmp(alg, "ASCON-128") ? 0 : !strcmp(alg, "ASCON-128a") ? 1 : !strcmp(alg, "ASCON-80pq") ? 2 : -1) >= 0) {
        spec_aead_encrypt(a, out, tag, F("PT"), L("PT"), F("AD"), L("AD"), F("Nonce"), F("Key"));
        memcpy(out + L("PT"), tag, 16); outlen = L("PT") + 16; exp = F("CT"); explen = L("CT");
        /* decrypt direction too */
        { static unsigned char m[MAXB]; unsigned char t2[16];
          spec_aead_decrypt(a, m, t2, exp, L("PT"), F("AD"), L("AD"), F("Nonce"), F("Key"));
          if (memcmp(m, F("PT"), L("PT")) || memcmp(t2, exp + L("PT"), 16)) { printf("%s #%ld decrypt mismatch\n", alg, count); return 1; } }
    } else if ((a = !strcmp(alg, "ASCON-128-SIV") ? 0 : !strcmp(alg, "ASCON-128a-SIV") ? 1 : !strcmp(alg, "ASCON-80pq-SIV") ? 2 : -1) >= 0) {
        spec_siv_encrypt(a, out, tag, F("PT"), L("PT"), F("AD"), L("AD"), F("Nonce"), F("Key"));
        memcpy(out + L("PT"), tag, 16); outlen = L("PT") + 16; exp = F("CT"); explen = L("CT");
        { static unsigned char m[MAXB]; unsigned char t2[16];
          spec_siv_decrypt(a, m, t2, exp, L("PT"), exp + L("PT"), F("AD"), L("AD"), F("Nonce"), F("Key"));
          if (memcmp(m, F("PT"), L("PT")) || memcmp(t2, exp + L("PT"), 16)) { printf("%s #%ld decrypt mismatch\n", alg, count); return 1; } }
    } else if ((a = !strcmp(alg, "ISAP-A-128A") ? 0 : !strcmp(alg, "ISAP-A-128") ? 1 : !strcmp(alg, "ISAP-A-80PQ") ? 2 : -1) >= 0) {
        spec_isap_key_t pk;
        spec_isap_init(a, &pk, F("Key"));
        spec_isap_crypt(a, out, F("PT"), L("PT"), F("Nonce"), &pk);
        spec_isap_mac(a, tag, out, L("PT"), F("AD"), L("AD"), F("Nonce"), &pk);
        memcpy(out + L("PT"), tag, 16); outlen = L("PT") + 16; exp = F("CT"); explen = L("CT");
    } else if (!strcmp(alg, "ASCON-HASH") || !strcmp(alg, "ASCON-HASHA")) {
        spec_hash(!strcmp(alg, "ASCON-HASHA"), out, F("Msg"), L("Msg")); outlen = 32; exp = F("MD"); explen = L("MD");
    } else if (!strcmp(alg, "ASCON-XOF") || !strcmp(alg, "ASCON-XOFA")) {
        exp = F("MD"); explen = L("MD"); outlen = explen;
        spec_xof(!strcmp(alg, "ASCON-XOFA"), out, outlen, F("Msg"), L("Msg"));
    } else if (!strcmp(alg, "ASCON-XOF-fixed") || !strcmp(alg, "ASCON-XOFA-fixed")) {
        spec_sponge_t s;
        exp = F("MD"); explen = L("MD"); outlen = explen;
        spec_xof_init(&s, !strcmp(alg, "ASCON-XOFA-fixed"), (uint32_t)(outlen * 8), 0, 1);
        spec_xof_absorb(&s, F("Msg"), L("Msg")); spec_xof_squeeze(&s, out, outlen);
    } else if (!strcmp(alg, "ASCON-Prf")) {
        exp = F("Tag"); explen = L("Tag"); outlen = explen;
        spec_prf(out, outlen, 0, F("Msg"), L("Msg"), F("Key"));
    } else if (!strcmp(alg, "ASCON-Mac")) {
        exp = F("Tag"); explen = L("Tag"); outlen = 16;
        spec_mac(out, F("Msg"), L("Msg"), F("Key"));
    } else if (!strcmp(alg, "ASCON-PrfShort")) {
        exp = F("Tag"); explen = L("Tag"); outlen = explen;
        if (spec_prf_short(out, outlen, F("Msg"), L("Msg"), F("Key")) != 0) { printf("%s #%ld refused\n", alg, count); return 1; }
    } else if (!strcmp(alg, "ASCON-HMAC") || !strcmp(alg, "ASCON-HMACA")) {
        exp = F("Tag"); explen = L("Tag"); outlen = 32;
        spec_hmac(!strcmp(alg, "ASCON-HMACA"), out, F("Key"), L("Key"), F("Msg"), L("Msg"));
    } else if (!strcmp(alg, "ASCON-KMAC") || !strcmp(alg, "ASCON-KMACA")) {
        exp = F("Tag"); explen = L("Tag"); outlen = explen;
        spec_kmac(!strcmp(alg, "ASCON-KMACA"), out, outlen, F("Key"), L("Key"), F("Msg"), L("Msg"), F("Custom"), L("Custom"), 0);
    } else {
        fprintf(stderr, "unknown algorithm %s\n", alg); exit(2);
    }
    if (outlen != explen || memcmp(out, exp, outlen)) { printf("%s #%ld mismatch\n", alg, count); return 1; }
    return 0;
}

int main(int argc, char **argv)
{
    FILE *f; char line[3 * MAXB]; long count = 0, checked = 0; int bad = 0;
    if (argc != 3 || !(f = fopen(argv[2], "r"))) { fprintf(stderr, "usage: katcheck ALG file\n"); return 2; }
    nf = 0;
    while (fgets(line, sizeof line, f)) {
        char *eq = strstr(line, " = ");
        if (!eq) {
            if (nf > 0) { bad |= process(argv[1], count); ++checked; nf = 0; }
            continue;
        }
        *eq = 0; eq += 3;
        if (!strcmp(line, "Count")) { count = atol(eq); continue; }
        if (nf < MAXF) {
            size_t n = 0; unsigned v;
            strncpy(fname[nf], line, 15); fname[nf][15] = 0;
            while (sscanf(eq + 2 * n, "%2x", &v) == 1 && n < MAXB) fval[nf][n++] = (unsigned char)v;
            flen[nf++] = n;
        }
    }
    if (nf > 0) { bad |= process(argv[1], count); ++checked; }
    printf("%s: %ld vectors %s\n", argv[1], checked, bad ? "MISMATCH" : "ok");
    return bad || checked == 0;
}
