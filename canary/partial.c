/* Semantics of `--unwindset L:1 --partial-loops`: prologue, exactly one loop
 * body, epilogue (DESIGN 2.4). */
unsigned nondet_u(void);
void one_iteration(void){ unsigned n=nondet_u(); unsigned r=3, acc=n; acc+=100; while(r<12){ acc+=r; ++r; } acc+=1000;
  __CPROVER_assert(acc==n+100+3+1000 && r==4,"exactly one body executed with r=3"); }
void one_iteration_twin(void){ unsigned n=nondet_u(); unsigned r=3, acc=n; acc+=100; while(r<12){ acc+=r; ++r; } acc+=1000;
  __CPROVER_assert(acc!=n+100+3+1000,"twin must fail"); }
