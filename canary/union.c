/* CBMC 6.11 mis-encodes stores to a word-array union member through a
 * constant-propagated (non-literal) index when the union's first member is not a
 * byte array: later literal-index reads through other members, memcpy and byte
 * pointers see stale data.  The guarded hook in /repo's headers declares a byte
 * view first; these canaries pin that the hooked shape is handled correctly. */
#include <stdint.h>
#include <string.h>
typedef union { uint8_t verif_bytes_first[40]; uint64_t S[5]; uint32_t W[10]; uint8_t B[40]; void *P[5]; } st_t;
uint64_t nondet_u64(void);
#define INIT st_t s; s.S[0]=nondet_u64();s.S[1]=nondet_u64();s.S[2]=nondet_u64();s.S[3]=nondet_u64();s.S[4]=nondet_u64();
void hooked_cp_index(void){ INIT uint64_t v=nondet_u64(); unsigned i=2; s.S[i]^=v; uint64_t w=s.S[2];
  __CPROVER_assert(s.B[16]==(uint8_t)w && s.W[4]==(uint32_t)w,"cp-index S store then literal B/W read"); }
void hooked_memcpy(void){ INIT uint64_t v=nondet_u64(); unsigned i=2; s.S[i]=v; st_t d; memcpy(d.S,s.S,sizeof(d.S));
  uint8_t *p=s.B; unsigned j=16;
  __CPROVER_assert(d.S[2]==v && d.B[16]==(uint8_t)v && p[j]==(uint8_t)v,"cp-index S store then memcpy / byte pointer"); }
void witness(void){ INIT __CPROVER_assert(0,"WITNESS"); }
