#!/bin/sh
# usage: ./run_all.sh quick|thorough [ids...]   -- runs the registered checks one after another, logs to /tmp/verif-logs
tier=${1:-quick}; shift
ids="$@"; [ -z "$ids" ] && ids=$(python3 -c "import json;print(' '.join(c['property_id'] for c in json.load(open('MANIFEST.json'))['checks']))")
mkdir -p /tmp/verif-logs
for id in $ids; do
  s=$(date +%s)
  ./check $id --tier $tier > /tmp/verif-logs/$id.$tier.log 2>&1
  rc=$?
  echo "$id $tier rc=$rc $(( $(date +%s) - s ))s $(tail -1 /tmp/verif-logs/$id.$tier.log)"
done
